"""Reference macro expander for C13 (specification-style, independent of the implementation).

Implements exactly the features the property lists, with the Arma/CBA reading
recorded in DESIGN.md (C13):
  * // and /* */ comments and backslash-newline are removed (outside double-quoted strings)
  * #define (object-/function-like), #undef, #ifdef/#ifndef/#else/#endif (nesting), #include
  * arguments are split at top-level commas (respecting () [] {} and "..."), each argument is fully
    macro-expanded before substitution - also under # and ##
  * #p wraps the substituted text in double quotes, a##b drops the operator
  * a function-like macro name not immediately followed by '(' is left alone
  * bodies are scanned for further macros; identifiers match whole words only
  * text inside double-quoted strings is never altered
The result is compared with the implementation on the token level.
"""
import re

IDENT = re.compile(r"[A-Za-z0-9_]+")


class Macro:
    def __init__(self, name, params, body):
        self.name = name
        self.params = params      # None = object-like
        self.body = body


def strip_comments(text):
    """remove comments and line continuations outside strings; keeps newlines of removed block comments out (token-level compare)"""
    out = []
    i, n = 0, len(text)
    in_str = False
    while i < n:
        c = text[i]
        if in_str:
            out.append(c)
            if c == '"':
                in_str = False
            i += 1
            continue
        if c == '"':
            in_str = True
            out.append(c)
            i += 1
        elif c == "/" and i + 1 < n and text[i + 1] == "/":
            while i < n and text[i] != "\n":
                i += 1
        elif c == "/" and i + 1 < n and text[i + 1] == "*":
            j = text.find("*/", i + 2)
            # a block comment keeps the line structure (directives are recognised per line)
            seg = text[i:(j + 2 if j >= 0 else n)]
            out.append("\n" * seg.count("\n"))
            i = j + 2 if j >= 0 else n
        elif c == "\\" and i + 1 < n and text[i + 1] == "\n":
            i += 2
        elif c == "\\" and i + 2 < n and text[i + 1] == "\r" and text[i + 2] == "\n":
            i += 3
        else:
            out.append(c)
            i += 1
    return "".join(out)


class Expander:
    def __init__(self, files=None):
        self.macros = {}
        self.files = files or {}      # include name -> text
        self.out = []

    # ---------------- expansion of running text
    def expand_text(self, text, pm=None):
        out = []
        i, n = 0, len(text)
        while i < n:
            c = text[i]
            if c == '"':
                j = text.find('"', i + 1)
                j = n - 1 if j < 0 else j
                out.append(text[i:j + 1])
                i = j + 1
                continue
            m = IDENT.match(text, i)
            if not m:
                out.append(c)
                i += 1
                continue
            word = m.group(0)
            i = m.end()
            if pm is not None and word in pm:
                out.append(pm[word])
                continue
            mac = self.macros.get(word)
            if mac is None:
                out.append(word)
                continue
            if mac.params is None:
                out.append(self.expand_body(mac, []))
                continue
            if i < n and text[i] == "(":
                args, i = self.split_args(text, i + 1)
                # NAME() of a macro without parameters: no argument (decided on the text as written, not on what it expands to)
                args = [] if (len(mac.params) == 0 and args == [""]) else [self.expand_text(a, pm) for a in args]
                out.append(self.expand_body(mac, args))
            else:
                out.append(word)
        return "".join(out)

    @staticmethod
    def split_args(text, i):
        """text[i] is the first character after '('; returns (raw args, index after ')')"""
        args = []
        depth = [0, 0, 0]
        cur = []
        n = len(text)
        in_str = False
        while i < n:
            c = text[i]
            if in_str:
                cur.append(c)
                if c == '"':
                    in_str = False
            elif c == '"':
                in_str = True
                cur.append(c)
            elif c == "(":
                depth[0] += 1; cur.append(c)
            elif c == "[":
                depth[1] += 1; cur.append(c)
            elif c == "{":
                depth[2] += 1; cur.append(c)
            elif c == "]":
                depth[1] -= 1; cur.append(c)
            elif c == "}":
                depth[2] -= 1; cur.append(c)
            elif c == ")":
                if depth[0] == 0:
                    args.append("".join(cur))
                    return args, i + 1
                depth[0] -= 1; cur.append(c)
            elif c == "," and depth == [0, 0, 0]:
                args.append("".join(cur))
                cur = []
            else:
                cur.append(c)
            i += 1
        args.append("".join(cur))
        return args, i

    def expand_body(self, mac, args):
        if mac.params is not None and len(args) != len(mac.params):
            raise ValueError("arity")
        pm = dict(zip(mac.params or [], args))
        body = mac.body
        out = []
        i, n = 0, len(body)
        while i < n:
            c = body[i]
            if c == '"':
                j = body.find('"', i + 1)
                j = n - 1 if j < 0 else j
                out.append(body[i:j + 1])
                i = j + 1
            elif c == "#" and i + 1 < n and body[i + 1] == "#":
                i += 2                      # concatenation: the operator disappears
            elif c == "#":
                m = IDENT.match(body, i + 1)
                if not m:
                    out.append(c)
                    i += 1
                    continue
                word = m.group(0)
                i = m.end()
                if word in pm:
                    out.append('"' + pm[word] + '"')
                elif word in self.macros and self.macros[word].params is None:
                    out.append('"' + self.expand_body(self.macros[word], []) + '"')
                else:
                    out.append('"' + word + '"')
            else:
                m = IDENT.match(body, i)
                if not m:
                    out.append(c)
                    i += 1
                    continue
                word = m.group(0)
                i = m.end()
                if word in pm:
                    out.append(pm[word])
                    continue
                inner = self.macros.get(word)
                if inner is None:
                    out.append(word)
                elif inner.params is None:
                    out.append(self.expand_body(inner, []))
                elif i < n and body[i] == "(":
                    a, i = self.split_args(body, i + 1)
                    a = [] if (len(inner.params) == 0 and a == [""]) else [self.expand_text(x, pm) for x in a]
                    out.append(self.expand_body(inner, a))
                else:
                    out.append(word)
        return "".join(out)

    # ---------------- files, directives
    def process(self, text):
        text = strip_comments(text.replace("\r", ""))
        cond = []          # list of [active_before, this_branch_true]
        for line in text.split("\n"):
            st = line.lstrip(" \t")
            active = all(c[1] for c in cond)
            if st.startswith("#"):
                m = re.match(r"#\s*([A-Za-z]+)\s*(.*)$", st)
                if not m:
                    continue
                d, rest = m.group(1).upper(), m.group(2).strip()
                if d == "IFDEF":
                    cond.append([active, rest in self.macros])
                elif d == "IFNDEF":
                    cond.append([active, rest not in self.macros])
                elif d == "ELSE":
                    cond[-1][1] = not cond[-1][1]
                elif d == "ENDIF":
                    cond.pop()
                elif not active:
                    continue
                elif d == "DEFINE":
                    self.define(rest)
                elif d == "UNDEF":
                    self.macros.pop(rest, None)
                elif d == "INCLUDE":
                    name = rest.strip('"<>')
                    self.process(self.files[name])
                continue
            if active:
                self.out.append(self.expand_text(line))
                self.out.append("\n")

    def define(self, rest):
        m = re.match(r"([A-Za-z0-9_]+)(\(([^)]*)\))?\s?(.*)$", rest, re.S)
        name = m.group(1)
        params = None
        if m.group(2) is not None:
            params = [p.strip() for p in m.group(3).split(",") if p.strip()]
        self.macros[name] = Macro(name, params, m.group(4).strip())


def reference(text, files=None):
    e = Expander(files)
    e.process(text)
    return "".join(e.out)


TOK = re.compile(r'"[^"]*"?|[A-Za-z0-9_]+|\S')


def tokens(text):
    """token sequence used for the comparison: strings byte-exact, words, single punctuation characters"""
    lines = [l for l in text.split("\n") if not l.startswith("#line")]
    return TOK.findall("\n".join(lines))
