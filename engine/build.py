"""Build the verification flavours of /repo's current working tree.

Every check calls ensure(flavour) first: cmake configure (once) + ninja under an
flock, so an edited /repo is always recompiled before anything is executed.
"""
import fcntl, os, subprocess, sys, time, shutil

VERIF = os.path.dirname(os.path.dirname(os.path.abspath(__file__)))
BUILD = os.path.join(VERIF, "build")
FLAVOURS = ("asan", "tsan", "fuzz")


def ensure(flavour="asan", targets=None, quiet=True):
    assert flavour in FLAVOURS
    bdir = os.path.join(BUILD, flavour)
    os.makedirs(bdir, exist_ok=True)
    lock = open(os.path.join(BUILD, "%s.lock" % flavour), "w")
    fcntl.flock(lock, fcntl.LOCK_EX)
    try:
        env = dict(os.environ, CXX="clang++", CC="clang")
        if not os.path.exists(os.path.join(bdir, "build.ninja")):
            r = subprocess.run(["cmake", "-G", "Ninja", "-DVERIF_FLAVOUR=" + flavour,
                                os.path.join(VERIF, "runner")], cwd=bdir, env=env,
                               stdout=subprocess.PIPE, stderr=subprocess.STDOUT, text=True)
            if r.returncode != 0:
                sys.stderr.write(r.stdout)
                raise SystemExit("BUILD-ERROR: cmake configure failed for %s" % flavour)
        cmd = ["ninja"] + (list(targets) if targets else [])
        t0 = time.time()
        r = subprocess.run(cmd, cwd=bdir, env=env, stdout=subprocess.PIPE, stderr=subprocess.STDOUT, text=True)
        if r.returncode != 0:
            sys.stderr.write(r.stdout[-8000:])
            raise SystemExit("BUILD-ERROR: ninja failed for %s" % flavour)
        if not quiet:
            print("built %s in %.1fs" % (flavour, time.time() - t0))
    finally:
        fcntl.flock(lock, fcntl.LOCK_UN)
        lock.close()
    return bdir


def binary(flavour, name="runner"):
    return os.path.join(BUILD, flavour, name)


def seed_corpus():
    """copy small valid inputs from /repo/tests into /verif/corpus (idempotent)"""
    dst = os.path.join(VERIF, "corpus")
    os.makedirs(dst, exist_ok=True)
    srcs = []
    for root, _dirs, files in os.walk("/repo/tests"):
        for f in files:
            if f.endswith((".sqf", ".cpp", ".hpp", ".txt")):
                srcs.append(os.path.join(root, f))
    for s in sorted(srcs):
        rel = os.path.relpath(s, "/repo/tests").replace("/", "__")
        d = os.path.join(dst, rel)
        if os.path.getsize(s) <= 64 * 1024 and not os.path.exists(d):
            shutil.copyfile(s, d)


if __name__ == "__main__":
    flavs = FLAVOURS if "--all" in sys.argv else [a for a in sys.argv[1:] if a in FLAVOURS] or ["asan"]
    for f in flavs:
        ensure(f, quiet=False)
    seed_corpus()
