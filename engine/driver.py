"""Common driver: tiers, seeds, worker pool, Hypothesis wiring, known findings,
3x confirmation, replay files and evidence files.

A property module (props/Cxx.py) provides
  ID, LEVEL, RULE, ASSUMPTIONS, TECHNIQUE
  strategy(env)            -> hypothesis strategy of JSON-able cases
  check(case, env)         -> Result
  SIZES                    -> {'quick': {...}, 'thorough': {...}}   (optional)
  FLOORS                   -> {label: min fraction of evaluations}  (optional)
  extra(env, tier, agg)    -> optional non-Hypothesis sub-campaign run in the main process
"""
import hashlib, importlib, json, multiprocessing, os, random, re, sys, time, traceback, shutil

from . import build
from .runner import Runner, RunnerCrash, sanitizer_signature

VERIF = build.VERIF
KNOWN_FILE = os.path.join(VERIF, "known_findings.json")


class Result:
    __slots__ = ("nontrivial", "labels", "violation", "inconclusive", "key")

    def __init__(self, nontrivial=False, labels=(), violation=None, inconclusive=False, key=None):
        self.nontrivial = nontrivial
        self.labels = list(labels)
        self.violation = violation      # None or dict(sig=..., msg=...)
        self.inconclusive = inconclusive
        self.key = key                  # optional canonical key for distinctness (default: hash of the case)


def viol(sig, msg, **kw):
    d = dict(sig=sig, msg=msg)
    d.update(kw)
    return d


class ViolationFound(AssertionError):
    pass


def load_known(pid):
    if not os.path.exists(KNOWN_FILE):
        return []
    with open(KNOWN_FILE) as f:
        data = json.load(f)
    return [k for k in data.get("findings", []) if k.get("property") == pid]


def match_known(known, sig, labels=()):
    """a violation belongs to a known finding if its signature matches, or if the case carries the
    label the finding declares as its trigger shape (`exclude_label`): cases of that shape are
    attributed to the finding (counted), so the search continues behind it"""
    for k in known:
        if re.fullmatch(k["signature"], sig):
            return k
    for k in known:
        if k.get("exclude_label") and k["exclude_label"] in labels:
            return k
    return None


class Env:
    """worker-local environment handed to strategy() and check()"""

    def __init__(self, pid, tier, seed, worker=0):
        self.pid = pid
        self.tier = tier
        self.seed = seed
        self.worker = worker
        self._runners = {}
        self.known = load_known(pid)
        self.cache = {}
        self.scratch = os.path.join(build.BUILD, "tmp", "%s_%d_%d" % (pid, os.getpid(), worker))
        self.sizes = {}

    def runner(self, flavour="asan", **kw):
        key = (flavour, tuple(sorted(kw.items())))
        r = self._runners.get(key)
        if r is None:
            r = Runner(flavour, **kw)
            r.start()
            self._runners[key] = r
        return r

    def scratch_dir(self):
        os.makedirs(self.scratch, exist_ok=True)
        return self.scratch

    def close(self):
        for r in self._runners.values():
            r.close()
        self._runners = {}
        shutil.rmtree(self.scratch, ignore_errors=True)

    def restart_runners(self):
        for r in self._runners.values():
            r.restart()

    def is_known(self, sig, labels=()):
        return match_known(self.known, sig, labels)


def case_hash(case):
    return hashlib.sha1(json.dumps(case, sort_keys=True, ensure_ascii=True).encode()).hexdigest()


DEFAULT_SIZES = {
    "quick": dict(budget_s=45, batch=100, max_batches=10 ** 6, workers=16, max_examples_scale=1),
    "thorough": dict(budget_s=600, batch=200, max_batches=10 ** 6, workers=16, max_examples_scale=1),
}


def _sizes(mod, tier):
    s = dict(DEFAULT_SIZES[tier])
    s.update(getattr(mod, "SIZES", {}).get(tier, {}))
    if os.environ.get("VERIF_BUDGET_S"):
        s["budget_s"] = float(os.environ["VERIF_BUDGET_S"])
    if os.environ.get("VERIF_WORKERS"):
        s["workers"] = int(os.environ["VERIF_WORKERS"])
    return s


def _worker(pid, tier, seed, widx, sizes, q):
    try:
        _worker_body(pid, tier, seed, widx, sizes, q)
    except BaseException:
        q.put(dict(worker=widx, fatal=traceback.format_exc()))


def run_case_guarded(mod, case, env):
    """check() with runner crashes turned into Results by the property's own policy"""
    try:
        return mod.check(case, env)
    except RunnerCrash as rc:
        handler = getattr(mod, "on_crash", None)
        if handler is not None:
            return handler(case, env, rc)
        if rc.kind == "timeout":
            if getattr(mod, "HANG_IS_VIOLATION", False):
                # the property's model says every generated case terminates: a second timeout in a fresh runner is a hang
                # (the driver re-executes the shrunk case 3x in fresh runners before it is reported)
                try:
                    return mod.check(case, env)
                except RunnerCrash as rc2:
                    if rc2.kind == "timeout":
                        extra_labels = list(getattr(mod, "hang_labels", lambda c: [])(case))
                        return Result(nontrivial=True, labels=["hang"] + extra_labels, violation=viol("hang|no-reply", "no reply within the command timeout, twice, for a case the model says terminates\ncase: %s" % json.dumps(case)[:1500]))
                    rc = rc2
            else:
                return Result(inconclusive=True, labels=["timeout"])
        sig = "crash|" + sanitizer_signature(rc.detail)
        return Result(nontrivial=True, labels=["crash"], violation=viol(sig, rc.detail[-1500:]))


def _worker_body(pid, tier, seed, widx, sizes, q):
    from hypothesis import given, settings, seed as hseed, HealthCheck, Phase
    import hypothesis.errors
    mod = importlib.import_module("props." + pid)
    env = Env(pid, tier, seed, widx)
    env.sizes = sizes
    stats = dict(worker=widx, evaluations=0, nontrivial=set(), labels={}, samples=[], violations=[],
                 known_hits={}, inconclusive=0, flaky=0, batches=0, excluded=0)
    t_end = time.time() + sizes["budget_s"]
    strat = mod.strategy(env)
    last_fail = {}
    rng = random.Random(seed * 1000 + widx)

    def body(case):
        if time.time() > t_end + 5 and not last_fail:
            return  # budget exhausted mid-batch: stop generating work (not a verdict)
        res = run_case_guarded(mod, case, env)
        stats["evaluations"] += 1
        for l in res.labels:
            stats["labels"][l] = stats["labels"].get(l, 0) + 1
        if res.inconclusive:
            stats["inconclusive"] += 1
            return
        if res.nontrivial:
            h = res.key or case_hash(case)
            if h not in stats["nontrivial"]:
                stats["nontrivial"].add(h)
                if len(stats["samples"]) < 3:
                    stats["samples"].append(case)
                elif rng.random() < 0.002:
                    stats["samples"][rng.randrange(3)] = case
        if res.violation is not None:
            k = env.is_known(res.violation["sig"], res.labels)
            if k is not None:
                stats["known_hits"][k["signature"]] = stats["known_hits"].get(k["signature"], 0) + 1
                return
            last_fail["case"] = case
            last_fail["violation"] = res.violation
            raise ViolationFound(res.violation["sig"])

    batch_no = 0
    while time.time() < t_end and batch_no < sizes["max_batches"]:
        bseed = (seed * 1000003 + widx * 7919 + batch_no * 104729) % (2 ** 63)
        test = settings(max_examples=sizes["batch"], database=None, deadline=None, report_multiple_bugs=False,
                        suppress_health_check=list(HealthCheck), derandomize=False,
                        phases=[Phase.generate, Phase.shrink])(hseed(bseed)(given(strat)(body)))
        batch_no += 1
        stats["batches"] = batch_no
        last_fail.clear()
        try:
            test()
        except ViolationFound:
            pass
        except hypothesis.errors.Flaky:
            stats["flaky"] += 1
            last_fail.clear()
            env.restart_runners()
            continue
        except hypothesis.errors.Unsatisfiable:
            stats["labels"]["unsatisfiable_batch"] = stats["labels"].get("unsatisfiable_batch", 0) + 1
            continue
        if last_fail:
            case, v = last_fail["case"], last_fail["violation"]
            # confirm 3x in fresh runners
            fails = 0
            sigs = []
            for _ in range(3):
                env.restart_runners()
                r = run_case_guarded(mod, case, env)
                if r.violation is not None and env.is_known(r.violation["sig"], r.labels) is None:
                    fails += 1
                    sigs.append(r.violation["sig"])
            if fails == 3:
                stats["violations"].append(dict(case=case, sig=v["sig"], msg=v["msg"]))
                # continue the search past this root cause within the run
                env.known.append(dict(signature=re.escape(v["sig"]), property=pid, _runtime=True))
                if len(stats["violations"]) >= 5:
                    break
            else:
                stats["flaky"] += 1
                stats["labels"]["flaky_unconfirmed"] = stats["labels"].get("flaky_unconfirmed", 0) + 1
    env.close()
    stats["nontrivial"] = sorted(stats["nontrivial"])
    q.put(stats)


def run_property(pid, tier, seed):
    sys.path.insert(0, VERIF)
    mod = importlib.import_module("props." + pid)
    sizes = _sizes(mod, tier)
    t0 = time.time()
    for fl in getattr(mod, "FLAVOURS", ("asan",)):
        build.ensure(fl)
    known = load_known(pid)
    agg = dict(evaluations=0, nontrivial=set(), labels={}, samples=[], violations=[], known_hits={},
               inconclusive=0, flaky=0, replayed=0, extra={})
    exit_code = 0
    out_lines = []

    # ---- replay tier: every saved replay + the minimal input of every known finding
    env0 = Env(pid, tier, seed, 99)
    env0.sizes = sizes
    rdir = os.path.join(VERIF, "replays", pid)
    replay_cases = []
    if os.path.isdir(rdir):
        for f in sorted(os.listdir(rdir)):
            if f.endswith(".json"):
                with open(os.path.join(rdir, f)) as fh:
                    replay_cases.append((os.path.join(rdir, f), json.load(fh)))
    for k in known:
        if "minimal_input" in k:
            replay_cases.append(("known:" + k["signature"], dict(case=k["minimal_input"])))
    known_confirmed = set()
    for path, rc in replay_cases:
        case = rc["case"]
        res = run_case_guarded(mod, case, env0)
        agg["replayed"] += 1
        agg["evaluations"] += 1
        if res.nontrivial:
            agg["nontrivial"].add(res.key or case_hash(case))
        if res.violation is not None:
            k = match_known(known, res.violation["sig"], res.labels)
            if k is not None:
                known_confirmed.add(k["signature"])
                agg["known_hits"][k["signature"]] = agg["known_hits"].get(k["signature"], 0) + 1
            else:
                agg["violations"].append(dict(case=case, sig=res.violation["sig"], msg=res.violation["msg"], replay_of=path))

    # ---- generation on N workers
    ctx = multiprocessing.get_context("fork")
    q = ctx.Queue()
    procs = []
    nworkers = sizes["workers"]
    for w in range(nworkers):
        p = ctx.Process(target=_worker, args=(pid, tier, seed, w, sizes, q))
        p.start()
        procs.append(p)
    got = 0
    fatal = []
    deadline = time.time() + sizes["budget_s"] * 4 + 600
    while got < nworkers and time.time() < deadline:
        try:
            st = q.get(timeout=5)
        except Exception:
            if not any(p.is_alive() for p in procs) and q.empty():
                break
            continue
        got += 1
        if "fatal" in st:
            fatal.append(st["fatal"])
            continue
        agg["evaluations"] += st["evaluations"]
        agg["gen_evaluations"] = agg.get("gen_evaluations", 0) + st["evaluations"]
        agg["nontrivial"].update(st["nontrivial"])
        for k, v in st["labels"].items():
            agg["labels"][k] = agg["labels"].get(k, 0) + v
        for k, v in st["known_hits"].items():
            agg["known_hits"][k] = agg["known_hits"].get(k, 0) + v
        agg["samples"].extend(st["samples"][:2])
        agg["violations"].extend(st["violations"])
        agg["inconclusive"] += st["inconclusive"]
        agg["flaky"] += st["flaky"]
    for p in procs:
        p.join(timeout=10)
        if p.is_alive():
            p.kill()
    if fatal:
        sys.stderr.write("HARNESS-ERROR in worker:\n" + fatal[0] + "\n")
        exit_code = 2
    if got < nworkers and not fatal:
        sys.stderr.write("HARNESS-ERROR: only %d of %d workers reported\n" % (got, nworkers))
        exit_code = 2

    # ---- optional extra sub-campaign in the main process (exhaustive sweeps, libFuzzer)
    extra = getattr(mod, "extra", None)
    if extra is not None:
        try:
            ex = extra(env0, tier, seed, sizes)
        except RunnerCrash as rc:
            ex = dict(violations=[dict(case=dict(cmd=rc.cmd), sig="crash|" + sanitizer_signature(rc.detail), msg=rc.detail[-1500:])])
        if ex:
            agg["evaluations"] += ex.get("evaluations", 0)
            agg["nontrivial"].update(ex.get("nontrivial", []))
            for k, v in ex.get("labels", {}).items():
                agg["labels"][k] = agg["labels"].get(k, 0) + v
            for v in ex.get("violations", []):
                k = match_known(known, v["sig"], v.get("labels", []))
                if k is not None:
                    agg["known_hits"][k["signature"]] = agg["known_hits"].get(k["signature"], 0) + 1
                else:
                    agg["violations"].append(v)
            agg["samples"].extend(ex.get("samples", [])[:3])
            agg["extra"] = ex.get("info", {})
    env0.close()

    # ---- verdicts
    seen_sigs = set()
    for v in agg["violations"]:
        if v["sig"] in seen_sigs:
            continue
        seen_sigs.add(v["sig"])
        os.makedirs(rdir, exist_ok=True)
        body = dict(property=pid, sig=v["sig"], msg=v["msg"], case=v["case"], seed=seed, tier=tier)
        h = case_hash(v["case"])[:16]
        path = v.get("replay_of") if (v.get("replay_of") or "").endswith(".json") else os.path.join(rdir, "%s.json" % h)
        if not os.path.exists(path):
            with open(path, "w") as f:
                json.dump(body, f, indent=1, sort_keys=True)
        out_lines.append("VIOLATION property=%s replay=%s" % (pid, path))
        out_lines.append("  signature: %s" % v["sig"])
        out_lines.append("  " + v["msg"][:600].replace("\n", "\n  "))
        exit_code = 1
    for k in known:
        sig = k["signature"]
        if agg["known_hits"].get(sig):
            out_lines.append("KNOWN-FINDING: property=%s %s" % (pid, k.get("what", sig)))
    # floors (broken generator => harness error, not a violation)
    floors = getattr(mod, "FLOORS", {})
    ev = max(1, agg.get("gen_evaluations", 0))
    floor_fail = []
    for lab, frac in floors.items():
        if agg["labels"].get(lab, 0) / ev < frac:
            floor_fail.append("%s=%.3f<%.3f" % (lab, agg["labels"].get(lab, 0) / ev, frac))
    if floor_fail and exit_code == 0 and ev > 200:
        sys.stderr.write("GENERATOR-FLOOR not reached: %s\n" % ", ".join(floor_fail))
        exit_code = 2

    wall = time.time() - t0
    samples = agg["samples"][:6] or [rc["case"] for _p, rc in replay_cases[:2]]
    coverage = dict(
        evaluations=agg["evaluations"],
        distinct_nontrivial=len(agg["nontrivial"]),
        rule=mod.RULE,
        samples=samples,
        labels=dict(sorted(agg["labels"].items())),
        known_finding_hits=agg["known_hits"],
        inconclusive=agg["inconclusive"],
        flaky_unconfirmed=agg["flaky"],
        replayed=agg["replayed"],
        workers=nworkers,
        budget_s=sizes["budget_s"],
    )
    coverage.update(agg["extra"] or {})
    evidence = dict(property_id=pid, tier=tier, seed=seed, level=mod.LEVEL, coverage=coverage,
                    assumptions=list(getattr(mod, "ASSUMPTIONS", [])), wall_s=round(wall, 2),
                    violations=len(seen_sigs))
    os.makedirs(os.path.join(VERIF, "evidence"), exist_ok=True)
    with open(os.path.join(VERIF, "evidence", pid + ".json"), "w") as f:
        json.dump(evidence, f, indent=1, sort_keys=True)
    for l in out_lines:
        print(l)
    print("%s tier=%s seed=%d evaluations=%d distinct_nontrivial=%d violations=%d known=%d inconclusive=%d wall=%.1fs exit=%d" % (
        pid, tier, seed, agg["evaluations"], len(agg["nontrivial"]), len(seen_sigs), len([k for k in known if agg["known_hits"].get(k["signature"])]), agg["inconclusive"], wall, exit_code))
    top = sorted(agg["labels"].items(), key=lambda kv: -kv[1])[:25]
    print("labels: " + ", ".join("%s=%d" % kv for kv in top))
    return exit_code


def replay(pid, path):
    sys.path.insert(0, VERIF)
    mod = importlib.import_module("props." + pid)
    for fl in getattr(mod, "FLAVOURS", ("asan",)):
        build.ensure(fl)
    with open(path) as f:
        body = json.load(f)
    env = Env(pid, "quick", 1, 98)
    env.sizes = _sizes(mod, "quick")
    res = run_case_guarded(mod, body["case"], env)
    env.close()
    if res.violation is not None:
        print("VIOLATION property=%s replay=%s" % (pid, path))
        print("  signature: %s" % res.violation["sig"])
        print("  " + res.violation["msg"][:2000].replace("\n", "\n  "))
        return 1
    print("replay %s: property held (nontrivial=%s labels=%s)" % (path, res.nontrivial, res.labels))
    return 0
