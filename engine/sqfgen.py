"""SQF expression/statement trees: Hypothesis strategies, a printer that chooses
parentheses/whitespace/case, and the reference post-order (what the compiler
must emit for the documented reading).

Tree nodes are JSON-able lists:
  ["num", text]                literal spelled `text`
  ["hex", text]                $FF / 0xff
  ["str", s]                   double-quoted string with content s
  ["bool", b]
  ["var", name]
  ["nular", name]
  ["unary", name, x]
  ["binary", name, l, r]       level looked up in the registry
  ["array", [x...]]
  ["code", [stmt...]]
  ["paren", x]                 explicit redundant parentheses
statements:
  ["expr", x] | ["assign", name, x] | ["passign", name, x]
Printing choices (whitespace / case / redundant parens) are part of the case so
that a replay is exact.
"""
import re
import struct
from hypothesis import strategies as st

KEYWORDS = {"true", "false", "private"}
MERGE_PAIRS = {"==", "<=", ">=", ">>", "!=", "||", "&&", "//", "/*", "*/"}


def f32(x):
    return struct.unpack("f", struct.pack("f", float(x)))[0]


def fmt_g(x):
    """what %g prints for a float32 value"""
    return "%g" % f32(x)


class Registry:
    def __init__(self, reg):
        self.nular = sorted({e[0] for e in reg["nular"]})
        self.unary = sorted({e[0] for e in reg["unary"]})
        bin_prec = {}
        self.bin_prec_all = {}
        for e in reg["binary"]:
            self.bin_prec_all.setdefault(e[0], set()).add(e[3])
            bin_prec.setdefault(e[0], e[3])
        self.binary = sorted(bin_prec)
        self.prec = bin_prec
        sn, su, sb = set(self.nular), set(self.unary), set(self.binary)
        self.cls = {}
        for n in sn | su | sb:
            self.cls[n] = ("b" if n in sb else "") + ("u" if n in su else "") + ("n" if n in sn else "")
        self.raw = reg

    def names(self, cls):
        return sorted(n for n, c in self.cls.items() if c == cls)

    def by_level(self, pure_only=False):
        out = {}
        for n in self.binary:
            if pure_only and self.cls[n] != "b":
                continue
            out.setdefault(self.prec[n], []).append(n)
        return out


def is_word(name):
    return re.fullmatch(r"[A-Za-z_][A-Za-z0-9_]*", name) is not None


# --------------------------------------------------------------------------- reference post-order

def level_of(node, reg):
    k = node[0]
    if k == "binary":
        return reg.prec[node[1].lower()]
    if k == "unary":
        return 11
    return 12


def postorder(node, reg, out):
    """reference instruction listing (deep form: code -> ["CODE", [...]])"""
    k = node[0]
    if k == "num":
        out.append("PUSH " + fmt_g(float(node[1])))
    elif k == "hex":
        t = node[1]
        v = int(t[1:], 16) if t[0] == "$" else int(t, 16)
        out.append("PUSH " + fmt_g(v))
    elif k == "str":
        out.append('PUSH "' + node[1].replace('"', '""') + '"')
    elif k == "bool":
        out.append("PUSH true" if node[1] else "PUSH false")
    elif k == "var":
        out.append("GETVARIABLE " + node[1])
    elif k == "nular":
        out.append("CALLNULAR " + node[1].lower())
    elif k == "paren":
        postorder(node[1], reg, out)
    elif k == "unary":
        child = node[2]
        inner = child
        while inner[0] == "paren":
            inner = inner[1]
        if node[1] in ("+", "-") and inner[0] in ("num", "hex"):
            if inner[0] == "hex":
                v = float(int(inner[1][1:], 16) if inner[1][0] == "$" else int(inner[1], 16))
            else:
                v = float(inner[1])
            if node[1] == "-":
                v = -f32(v)
            out.append("PUSH " + fmt_g(v))
        else:
            postorder(child, reg, out)
            out.append("CALLUNARY " + node[1].lower())
    elif k == "binary":
        postorder(node[2], reg, out)
        postorder(node[3], reg, out)
        out.append("CALLBINARY " + node[1].lower())
    elif k == "array":
        for e in node[1]:
            postorder(e, reg, out)
        out.append("MAKEARRAY %d" % len(node[1]))
    elif k == "code":
        out.append(["CODE", statements_postorder(node[1], reg)])
    else:
        raise ValueError(k)
    return out


def statements_postorder(stmts, reg):
    out = []
    for i, s in enumerate(stmts):
        if i:
            out.append("ENDSTATEMENT")
        if s[0] == "expr":
            postorder(s[1], reg, out)
        elif s[0] == "assign":
            postorder(s[2], reg, out)
            out.append("ASSIGNTO " + s[1])
        elif s[0] == "passign":
            postorder(s[2], reg, out)
            out.append("ASSIGNTOLOCAL " + s[1])
    return out


# --------------------------------------------------------------------------- printer

class Printer:
    """prints a tree to tokens; `choices` is a list of small ints consumed in order
    (whitespace kind, case flips, optional redundant parens) so that the print is
    a pure function of (tree, choices)."""

    WS = [" ", "  ", "\t", "\n", " \n ", "\r\n"]

    def __init__(self, reg, choices=None, minimal_ws=False):
        self.reg = reg
        self.choices = list(choices or [])
        self.ci = 0
        self.tokens = []
        self.minimal_ws = minimal_ws

    def choice(self, n):
        if self.ci < len(self.choices):
            v = self.choices[self.ci] % n
        else:
            v = 0
        self.ci += 1
        return v

    def tok(self, t):
        self.tokens.append(t)

    def opname(self, name):
        # random letter case for alphabetic names
        if not is_word(name):
            return name
        mode = self.choice(4)
        if mode == 0:
            return name
        if mode == 1:
            return name.upper()
        if mode == 2:
            return name.lower()
        return "".join(c.upper() if (i + self.choice(2)) % 2 else c.lower() for i, c in enumerate(name))

    def expr(self, node, ctx_level=0, side=None):
        """ctx_level: level of the enclosing operator position; side 'l','r','u' or None"""
        lvl = level_of(node, self.reg)
        need = False
        if side == "l":
            need = lvl < ctx_level
        elif side == "r":
            need = lvl <= ctx_level
        elif side == "u":
            need = lvl < 11
        if need:
            self.tok("(")
            self._expr(node)
            self.tok(")")
        else:
            self._expr(node)

    def _expr(self, node):
        k = node[0]
        if k in ("num", "hex"):
            self.tok(node[1])
        elif k == "str":
            self.tok('"' + node[1].replace('"', '""') + '"')
        elif k == "bool":
            self.tok(self.opname("true" if node[1] else "false"))
        elif k == "var":
            self.tok(node[1])
        elif k == "nular":
            self.tok(self.opname(node[1]))
        elif k == "paren":
            self.tok("(")
            self.expr(node[1])
            self.tok(")")
        elif k == "unary":
            self.tok(self.opname(node[1]))
            self.expr(node[2], 11, "u")
        elif k == "binary":
            p = self.reg.prec[node[1].lower()]
            self.expr(node[2], p, "l")
            self.tok(self.opname(node[1]))
            self.expr(node[3], p, "r")
        elif k == "array":
            self.tok("[")
            for i, e in enumerate(node[1]):
                if i:
                    self.tok(",")
                self.expr(e)
            self.tok("]")
        elif k == "code":
            self.tok("{")
            self.statements(node[1])
            self.tok("}")
        else:
            raise ValueError(k)

    def statements(self, stmts):
        for i, s in enumerate(stmts):
            if i:
                self.tok(";")
            if s[0] == "expr":
                self.expr(s[1])
            elif s[0] == "assign":
                self.tok(s[1])
                self.tok("=")
                self.expr(s[2])
            elif s[0] == "passign":
                self.tok(self.opname("private"))
                self.tok(s[1])
                self.tok("=")
                self.expr(s[2])

    @staticmethod
    def must_separate(a, b):
        x, y = a[-1], b[0]
        wordish = lambda c: c.isalnum() or c in "_.$"
        if wordish(x) and wordish(y):
            return True
        if x + y in MERGE_PAIRS:
            return True
        if x == "#" or y == "#":
            return True      # '#line' handling in the tokenizer
        if x in "'\"" and y in "'\"":
            return True      # adjacent strings would read as an escaped quote
        return False

    def text(self):
        """join tokens with generated whitespace; returns (text, positions) where positions[i]=(line, col) 0-based"""
        out = []
        pos = []
        line, col = 0, 0
        prev = None
        for t in self.tokens:
            if prev is not None:
                if self.must_separate(prev, t):
                    ws = " " if self.minimal_ws else self.WS[self.choice(len(self.WS))]
                else:
                    c = 0 if self.minimal_ws else self.choice(len(self.WS) + 2)
                    ws = "" if c >= len(self.WS) else self.WS[c]
                    if self.minimal_ws:
                        ws = "" if prev in "([{" or t in ")]},;" else " "
                out.append(ws)
                for ch in ws:
                    if ch == "\n":
                        line += 1
                        col = 0
                    else:
                        col += 1
            pos.append((line, col))
            out.append(t)
            for ch in t:
                if ch == "\n":
                    line += 1
                    col = 0
                else:
                    col += 1
            prev = t
        return "".join(out), pos


def print_statements(stmts, reg, choices=None, minimal_ws=False):
    p = Printer(reg, choices, minimal_ws)
    p.statements(stmts)
    return p.text()[0]


def print_expr(node, reg, choices=None, minimal_ws=False):
    p = Printer(reg, choices, minimal_ws)
    p.expr(node)
    return p.text()[0]


def full_parens(node, reg):
    """fully parenthesised copy of the tree (every operator application wrapped)"""
    k = node[0]
    if k == "unary":
        return ["paren", ["unary", node[1], full_parens(node[2], reg)]]
    if k == "binary":
        return ["paren", ["binary", node[1], full_parens(node[2], reg), full_parens(node[3], reg)]]
    if k == "paren":
        return full_parens(node[1], reg)
    if k == "array":
        return ["array", [full_parens(e, reg) for e in node[1]]]
    if k == "code":
        return ["code", [[s[0]] + ([s[1], full_parens(s[2], reg)] if s[0] != "expr" else [full_parens(s[1], reg)]) for s in node[1]]]
    return node


# --------------------------------------------------------------------------- strategies

VAR_POOL = ["a", "b", "_x", "_y", "foo", "Bar", "t", "tr", "tru", "f", "fals", "p", "priv", "privat", "_t", "x1", "trueX", "falsey", "private_"]


def expr_trees(reg, binary_names, unary_names, nular_names, max_leaves=12, with_code=True, var_pool=VAR_POOL):
    """strategy for expression trees over the given operator name pools"""
    num = st.one_of(
        st.integers(0, 99).map(lambda i: ["num", str(i)]),
        st.sampled_from(["0.5", "1.25", "2.5", "10.75", "1e3", "1E2", ".5", "3.", "007", "16777216", "1e-2", "2.5e1"]).map(lambda t: ["num", t]),
        st.sampled_from(["$FF", "0x10", "0xaB", "$0"]).map(lambda t: ["hex", t]),
    )
    leaf = st.one_of(
        num, num,
        st.sampled_from(var_pool).map(lambda n: ["var", n]),
        st.booleans().map(lambda b: ["bool", b]),
        st.sampled_from(["", "a", "x y", 'q"q', "it's", "{{", "1+2"]).map(lambda s: ["str", s]),
        st.sampled_from(nular_names).map(lambda n: ["nular", n]) if nular_names else num,
    )

    def extend(children):
        opts = [
            st.tuples(st.sampled_from(binary_names), children, children).map(lambda t: ["binary", t[0], t[1], t[2]]),
            st.tuples(st.sampled_from(binary_names), children, children).map(lambda t: ["binary", t[0], t[1], t[2]]),
            st.tuples(st.sampled_from(unary_names), children).map(lambda t: ["unary", t[0], t[1]]),
            st.lists(children, min_size=0, max_size=3).map(lambda l: ["array", l]),
            children.map(lambda c: ["paren", c]),
        ]
        if with_code:
            stmt = st.one_of(
                children.map(lambda c: ["expr", c]),
                st.tuples(st.sampled_from(["a", "_x", "Foo"]), children).map(lambda t: ["assign", t[0], t[1]]),
                st.tuples(st.sampled_from(["_x", "_Y"]), children).map(lambda t: ["passign", t[0], t[1]]),
            )
            opts.append(st.lists(stmt, min_size=0, max_size=3).map(lambda l: ["code", l]))
        return st.one_of(*opts)

    return st.recursive(leaf, extend, max_leaves=max_leaves)


def count_nodes(node):
    k = node[0]
    if k in ("unary",):
        return 1 + count_nodes(node[2])
    if k == "binary":
        return 1 + count_nodes(node[2]) + count_nodes(node[3])
    if k == "paren":
        return count_nodes(node[1])
    if k == "array":
        return 1 + sum(count_nodes(e) for e in node[1])
    if k == "code":
        return 1 + sum(count_nodes(s[-1]) for s in node[1])
    return 1


def grouping_positions(node, reg, acc=None):
    """collect facts that make a tree non-trivial for precedence/associativity:
    returns list of tags: ('pair', p_outer, p_inner, side), ('ub',) unary adjacent to binary"""
    if acc is None:
        acc = []
    k = node[0]
    if k == "binary":
        p = reg.prec[node[1].lower()]
        for side, ch in (("l", node[2]), ("r", node[3])):
            c = ch
            if c[0] == "binary":
                acc.append(("pair", p, reg.prec[c[1].lower()], side))
            elif c[0] == "unary":
                acc.append(("ub", p, side))
            grouping_positions(ch, reg, acc)
    elif k == "unary":
        if node[2][0] == "binary":
            acc.append(("ub", reg.prec[node[2][1].lower()], "under"))
        grouping_positions(node[2], reg, acc)
    elif k == "paren":
        grouping_positions(node[1], reg, acc)
    elif k == "array":
        for e in node[1]:
            grouping_positions(e, reg, acc)
    elif k == "code":
        for s in node[1]:
            grouping_positions(s[-1], reg, acc)
    return acc
