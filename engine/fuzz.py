"""libFuzzer campaigns (E-fuzz): run a target of the `fuzz` flavour in fork mode and hand back its artifacts.

The saved artifact - not the PRNG value - is the reproducible unit: every artifact is
replayed by the caller through the ASan runner and classified there, so a finding of the
fuzzer gets the same signature as one of the Hypothesis part (and known findings are
recognised instead of ending the campaign: -ignore_crashes=1 keeps the search going).
"""
import glob, os, re, shutil, subprocess, time

from . import build


def campaign(target, seconds, seed, seeds, workdir, max_len=4096, timeout_s=10, workers=16, env_extra=None, dict_words=None):
    """returns dict(execs, artifacts=[(kind, bytes)], wall_s, cov, log_tail)"""
    build.ensure("fuzz", targets=[target])
    exe = build.binary("fuzz", target)
    shutil.rmtree(workdir, ignore_errors=True)
    corpus = os.path.join(workdir, "corpus")
    arts = os.path.join(workdir, "art")
    os.makedirs(corpus)
    os.makedirs(arts)
    for i, data in enumerate(seeds):
        with open(os.path.join(corpus, "seed_%04d" % i), "wb") as f:
            f.write(data[:max_len])
    args = [exe, "-fork=%d" % workers, "-ignore_crashes=1", "-ignore_timeouts=1", "-ignore_ooms=1", "-max_total_time=%d" % int(seconds),
            "-timeout=%d" % timeout_s, "-rss_limit_mb=3000", "-max_len=%d" % max_len, "-seed=%d" % (seed or 1), "-artifact_prefix=%s/" % arts,
            "-print_final_stats=1", "-use_value_profile=1"]
    if dict_words:
        dpath = os.path.join(workdir, "dict.txt")
        with open(dpath, "w") as f:
            for w in dict_words:
                f.write('"%s"\n' % "".join(("\\x%02x" % b) for b in w.encode("latin-1")))
        args.append("-dict=" + dpath)
    args.append(corpus)
    env = dict(os.environ)
    env["ASAN_OPTIONS"] = "detect_leaks=0:abort_on_error=1:symbolize=1:allocator_may_return_null=1:max_allocation_size_mb=2048"
    env["UBSAN_OPTIONS"] = "print_stacktrace=1:halt_on_error=1"
    env["FUZZ_TMP"] = workdir
    env.update(env_extra or {})
    t0 = time.time()
    log = os.path.join(workdir, "fuzz.log")
    with open(log, "wb") as lf:
        try:
            subprocess.run(args, stdout=lf, stderr=subprocess.STDOUT, env=env, cwd=workdir, timeout=seconds + 120)
        except subprocess.TimeoutExpired:
            pass
    wall = time.time() - t0
    text = open(log, "rb").read().decode("latin-1", "replace")
    execs = 0
    cov = 0
    for m in re.finditer(r"^#(\d+): cov: (\d+)", text, re.M):
        execs = max(execs, int(m.group(1)))
        cov = max(cov, int(m.group(2)))
    artifacts = []
    for p in sorted(glob.glob(os.path.join(arts, "*"))):
        kind = os.path.basename(p).split("-")[0]
        try:
            with open(p, "rb") as f:
                artifacts.append((kind, f.read()))
        except OSError:
            pass
    return dict(execs=execs, cov=cov, artifacts=artifacts, wall_s=round(wall, 1), log_tail=text[-1500:])
