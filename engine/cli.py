import argparse, os, sys
from . import driver


def main():
    ap = argparse.ArgumentParser()
    ap.add_argument("pid")
    ap.add_argument("--tier", default=os.environ.get("VERIF_TIER", "quick"), choices=["quick", "thorough"])
    ap.add_argument("--replay")
    ap.add_argument("--seed", type=int, default=None)
    a = ap.parse_args()
    seed = a.seed if a.seed is not None else int(os.environ.get("VERIF_SEED", "0") or 0)
    if seed == 0:
        seed = 1
    if a.replay:
        sys.exit(driver.replay(a.pid, a.replay))
    sys.exit(driver.run_property(a.pid, a.tier, seed))


if __name__ == "__main__":
    main()
