"""C03 programs: variable binding operations over nested scopes, spawned scripts
and with-namespace blocks; printer + reference scope model.

AST:
  block := [stmt...]
  stmt  := ["R", k, name]                     read -> trace [k, value|"nil"]
         | ["A", name, v]                     plain assignment name = v
         | ["P", name]                        private "name"
         | ["PA", [names]]                    private ["a","b"]
         | ["PV", name, v]                    private name = v
         | ["PAR", [v...], [names]]           [v..] params ["a",..]
         | ["SV", ns, name, v]                ns setVariable ["name", v]
         | ["GV", k, ns, name]                trace [k, ns getVariable ["name","nil"]]
         | ["N", k, name]                     trace [k, isNil "name"]  (same lookup as a read of the name)
         | ["call", block] | ["if", block] | ["foreach", n, block] | ["for", n, block]
         | ["while", wid, n, condreads, block] | ["count", n, block]
         | ["with", ns, block]
         | ["spawn", sid, block]
names carry their own letter case; locals start with '_'.
"""
from hypothesis import strategies as st

NAMESPACES = ["missionNamespace", "uiNamespace", "parsingNamespace", "profileNamespace"]


def num(x):
    return str(int(x)) if float(x) == int(x) else repr(float(x))


def p_read(k, name, tr):
    # direct read: an undefined name pushes nil (with a warning), no helper scope is opened
    return '%s pushBack [%d, %s]' % (tr, k, name)


def p_stmt(s, tr):
    k = s[0]
    if k == "R":
        return p_read(s[1], s[2], tr)
    if k == "A":
        return "%s = %s" % (s[1], num(s[2]))
    if k == "P":
        return 'private "%s"' % s[1]
    if k == "PA":
        return "private [" + ", ".join('"%s"' % n for n in s[1]) + "]"
    if k == "PV":
        return "private %s = %s" % (s[1], num(s[2]))
    if k == "PAR":
        return "[" + ", ".join(num(v) for v in s[1]) + "] params [" + ", ".join('"%s"' % n for n in s[2]) + "]"
    if k == "SV":
        return '%s setVariable ["%s", %s]' % (s[1], s[2], num(s[3]))
    if k == "GV":
        return '%s pushBack [%d, %s getVariable ["%s", "nil"]]' % (tr, s[1], s[2], s[3])
    if k == "N":
        return '%s pushBack [%d, isNil "%s"]' % (tr, s[1], s[2])
    if k == "call":
        return "call " + p_block(s[1], tr)
    if k == "if":
        return "if (true) then " + p_block(s[1], tr)
    if k == "foreach":
        return p_block(s[2], tr) + " forEach [" + ", ".join(num(i) for i in range(s[1])) + "]"
    if k == "for":
        return 'for "_fi" from 1 to %d do %s' % (s[1], p_block(s[2], tr))
    if k == "count":
        body = "; ".join([p_stmt(x, tr) for x in s[2]] + ["true"])
        return "{" + body + "} count [" + ", ".join(num(i) for i in range(s[1])) + "]"
    if k == "while":
        w = "_w%d" % s[1]
        cond = "; ".join([p_stmt(x, tr) for x in s[3]] + ["%s < %d" % (w, s[2])])
        body = "; ".join(["%s = %s + 1" % (w, w)] + [p_stmt(x, tr) for x in s[4]])
        return "private %s = 0; while {%s} do {%s}" % (w, cond, body)
    if k == "with":
        return "with %s do %s" % (s[1], p_block(s[2], tr))
    if k == "spawn":
        tr2 = "_S"
        body = "; ".join(['private _S = []'] + [p_stmt(x, tr2) for x in s[2]] + ['missionNamespace setVariable ["S%d", _S]' % s[1]])
        return "[] spawn {" + body + "}"
    raise ValueError(s)


def p_block(b, tr):
    return "{" + "; ".join(p_stmt(s, tr) for s in b) + "}"


def p_program(b):
    return "private _T = []; " + "; ".join(p_stmt(s, "_T") for s in b) + '; missionNamespace setVariable ["T", _T];'


# ------------------------------------------------------------------ reference model

class ScopeModel:
    def __init__(self):
        self.ns = {n: {} for n in NAMESPACES}
        self.spawned = []   # (sid, block) to run after main with an empty chain

    def run(self, prog):
        T = []
        chain = [{}]
        chain[0]["_t"] = "TRACE"
        self.block_in(prog, chain, "missionNamespace", T)
        self.ns["missionNamespace"]["t"] = "TRACE"
        traces = {"T": T}
        # spawned scripts start with an empty local chain, default namespace
        i = 0
        while i < len(self.spawned):
            sid, blk = self.spawned[i]
            i += 1
            S = []
            self.block_in(blk, [{"_s": "TRACE"}], "missionNamespace", S)
            traces["S%d" % sid] = S
            self.ns["missionNamespace"]["s%d" % sid] = "TRACE"
        return traces

    def lookup(self, chain, cur_ns, name):
        n = name.lower()
        if n.startswith("_"):
            for sc in reversed(chain):
                if n in sc:
                    return sc[n]
            return None
        return self.ns[cur_ns].get(n)

    def assign(self, chain, cur_ns, name, v):
        n = name.lower()
        if n.startswith("_"):
            for sc in reversed(chain):
                if n in sc:
                    sc[n] = v
                    return
            chain[-1][n] = v
        else:
            self.ns[cur_ns][n] = v

    def block_in(self, b, chain, cur_ns, T):
        for s in b:
            self.stmt(s, chain, cur_ns, T)

    def scope(self, b, chain, cur_ns, T, binds=None):
        chain.append(dict(binds or {}))
        try:
            self.block_in(b, chain, cur_ns, T)
        finally:
            chain.pop()

    def stmt(self, s, chain, cur_ns, T):
        k = s[0]
        if k == "R":
            v = self.lookup(chain, cur_ns, s[2])
            T.append([float(s[1]), None if v is None else float(v)])
        elif k == "A":
            self.assign(chain, cur_ns, s[1], float(s[2]))
        elif k == "P":
            # binds in the current scope; a name the current scope already holds keeps its value
            # (the property only states *where* private binds, not that it resets an existing binding)
            chain[-1].setdefault(s[1].lower(), None)
        elif k == "PA":
            for n in s[1]:
                chain[-1].setdefault(n.lower(), None)
        elif k == "PV":
            chain[-1][s[1].lower()] = float(s[2])
        elif k == "PAR":
            for i, n in enumerate(s[2]):
                chain[-1][n.lower()] = float(s[1][i]) if i < len(s[1]) else None
        elif k == "SV":
            self.ns[s[1]][s[2].lower()] = float(s[3])
        elif k == "GV":
            v = self.ns[s[2]].get(s[3].lower())
            T.append([float(s[1]), "nil" if v is None else float(v)])
        elif k == "N":
            T.append([float(s[1]), self.lookup(chain, cur_ns, s[2]) is None])
        elif k in ("call", "if"):
            self.scope(s[1], chain, cur_ns, T)
        elif k == "foreach":
            for i in range(s[1]):
                self.scope(s[2], chain, cur_ns, T, {"_x": float(i), "_foreachindex": float(i)})
        elif k == "count":
            for i in range(s[1]):
                self.scope(s[2], chain, cur_ns, T, {"_x": float(i)})
        elif k == "for":
            for i in range(1, s[1] + 1):
                self.scope(s[2], chain, cur_ns, T, {"_fi": float(i)})
        elif k == "while":
            w = "_w%d" % s[1]
            chain[-1][w] = 0.0
            while True:
                # condition and body are each evaluated in a fresh scope
                self.scope(s[3], chain, cur_ns, T)
                if not (self.lookup(chain, cur_ns, w) < s[2]):
                    break
                self.assign(chain, cur_ns, w, self.lookup(chain, cur_ns, w) + 1)
                self.scope(s[4], chain, cur_ns, T)
        elif k == "with":
            self.scope(s[2], chain, s[1], T)
        elif k == "spawn":
            self.spawned.append((s[1], s[2]))
        else:
            raise ValueError(s)


# ------------------------------------------------------------------ generator

LOCALS = ["_a", "_b", "_c"]
GLOBALS = ["ga", "gb", "gc", "gd"]


@st.composite
def programs(draw, max_depth=4, max_stmts=5, allow_spawn=True, allow_with=True):
    counter = {"k": 0, "v": 100, "w": 0, "s": 0}

    def case_of(name):
        mode = draw(st.integers(0, 3))
        if mode == 0:
            return name
        if mode == 1:
            return name.upper()
        return "".join(c.upper() if draw(st.booleans()) else c.lower() for c in name)

    def nk():
        counter["k"] += 1
        return counter["k"]

    def nv():
        counter["v"] += 1
        return counter["v"]

    def lname():
        return case_of(draw(st.sampled_from(LOCALS)))

    def gname():
        return case_of(draw(st.sampled_from(GLOBALS)))

    def anyname():
        return lname() if draw(st.integers(0, 2)) else gname()

    def simple(in_spawn):
        if in_spawn:
            # spawned code runs interleaved with its starter: only locals are touched there
            k = draw(st.sampled_from(["R", "R", "R", "A", "A", "P", "PA", "PV", "PAR", "N"]))
        else:
            k = draw(st.sampled_from(["R", "R", "R", "A", "A", "P", "PV", "PV", "PA", "PAR", "SV", "GV", "N"]))
        if k == "N":
            return ["N", nk(), lname() if in_spawn else anyname()]
        if k == "R":
            return ["R", nk(), lname() if in_spawn else anyname()]
        if k == "A":
            return ["A", lname() if in_spawn else anyname(), nv()]
        if k == "P":
            return ["P", lname()]
        if k == "PA":
            return ["PA", [lname() for _ in range(draw(st.integers(1, 3)))]]
        if k == "PV":
            return ["PV", lname(), nv()]
        if k == "PAR":
            names = [lname() for _ in range(draw(st.integers(1, 3)))]
            # distinct names (lower-cased) so the binding order does not matter
            seen, out = set(), []
            for n in names:
                if n.lower() not in seen:
                    seen.add(n.lower()); out.append(n)
            # fewer values than names: the unfilled names are still bound here (to nil), hiding same-named variables of enclosing scopes
            nvals = len(out) if draw(st.integers(0, 2)) else draw(st.integers(0, len(out)))
            return ["PAR", [nv() for _ in out][:nvals], out]
        # a namespace can hold a name with a leading underscore (setVariable takes any string): it is not a local variable
        nsname = lname() if draw(st.integers(0, 5)) == 0 else gname()
        if k == "SV":
            return ["SV", draw(st.sampled_from(NAMESPACES)), nsname, nv()]
        return ["GV", nk(), draw(st.sampled_from(NAMESPACES)), nsname]

    def stmt(depth, in_spawn, in_loopcode):
        kinds = ["s", "s", "s"]
        if depth > 0:
            kinds += ["call", "call", "if", "foreach", "for", "while", "count"]
            if allow_with and not in_spawn:
                kinds += ["with", "with"]
            if allow_spawn and not in_spawn:
                kinds += ["spawn"]
        k = draw(st.sampled_from(kinds))
        if k == "s":
            return simple(in_spawn)
        if k in ("call", "if"):
            return [k, block(depth - 1, in_spawn)]
        if k == "foreach":
            return ["foreach", draw(st.integers(0, 3)), block(depth - 1, in_spawn)]
        if k == "count":
            return ["count", draw(st.integers(0, 3)), block(depth - 1, in_spawn)]
        if k == "for":
            return ["for", draw(st.integers(0, 3)), block(depth - 1, in_spawn)]
        if k == "while":
            counter["w"] += 1
            wid = counter["w"]
            reads = [simple(in_spawn) for _ in range(draw(st.integers(0, 2)))]
            reads = [r for r in reads if r[0] in ("R", "GV", "A")]
            return ["while", wid, draw(st.integers(0, 3)), reads, block(depth - 1, in_spawn)]
        if k == "with":
            return ["with", draw(st.sampled_from(NAMESPACES)), block(depth - 1, in_spawn)]
        if k == "spawn":
            counter["s"] += 1
            return ["spawn", counter["s"], block(min(depth - 1, 2), True)]
        raise ValueError(k)

    def block(depth, in_spawn):
        n = draw(st.integers(1, max_stmts))
        return [stmt(depth, in_spawn, False) for _ in range(n)]

    return block(max_depth, False)


def analyse(prog):
    """labels + non-trivial rule"""
    labs = set()

    def walk(b, depth, live, under_with, scopes_below_with, in_spawn):
        # live: list of sets of names bound per live scope
        live = live + [set()]
        for s in b:
            k = s[0]
            if k in ("P", "PV"):
                live[-1].add(s[1].lower())
            elif k == "PA":
                live[-1].update(n.lower() for n in s[1])
            elif k == "PAR":
                if len(s[1]) < len(s[2]):
                    labs.add("params_unfilled")
                    if any(n.lower() in sc for n in s[2][len(s[1]):] for sc in live[:-1]):
                        labs.add("params_unfilled_hides_outer")
                live[-1].update(n.lower() for n in s[2])
            elif k in ("R", "A"):
                n = s[2].lower() if k == "R" else s[1].lower()
                if n.startswith("_"):
                    holders = [i for i, sc in enumerate(live) if n in sc]
                    if len(holders) >= 2:
                        labs.add("shadowed_access")
                    if holders and (len(live) - 1 - holders[-1]) >= 2:
                        labs.add("deep_access")
                    if k == "A" and not holders:
                        live[-1].add(n)
                    if any(c.isupper() for c in (s[2] if k == "R" else s[1])):
                        labs.add("mixed_case")
                else:
                    if under_with:
                        labs.add("global_in_with")
                        if scopes_below_with >= 1:
                            labs.add("with_nested_scope")
            elif k in ("SV", "GV"):
                labs.add("ns_getset")
                if s[-2 if k == "SV" else -1].startswith("_"):
                    labs.add("ns_underscore_name")
            elif k == "N":
                labs.add("isnil_name")
            elif k in ("call", "if"):
                walk(s[1], depth + 1, live, under_with, scopes_below_with + (1 if under_with else 0), in_spawn)
            elif k in ("foreach", "for", "count"):
                labs.add("loop")
                walk(s[2], depth + 1, live, under_with, scopes_below_with + (1 if under_with else 0), in_spawn)
            elif k == "while":
                labs.add("loop"); labs.add("while")
                if s[3]:
                    labs.add("while_cond_access")
                walk(s[3], depth + 1, live, under_with, scopes_below_with + (1 if under_with else 0), in_spawn)
                walk(s[4], depth + 1, live, under_with, scopes_below_with + (1 if under_with else 0), in_spawn)
            elif k == "with":
                labs.add("with")
                if under_with:
                    labs.add("nested_with")
                walk(s[2], depth + 1, live, True, 0, in_spawn)
            elif k == "spawn":
                labs.add("spawn")
                walk(s[2], depth + 1, [], False, 0, True)
        if depth >= 3:
            labs.add("depth>=3")

    walk(prog, 0, [], False, 0, False)
    nontrivial = bool(labs & {"shadowed_access", "deep_access", "with_nested_scope", "global_in_with", "spawn"})
    return labs, nontrivial
