"""Client for the persistent C++ runner (one subprocess per worker)."""
import json, os, select, signal, subprocess, tempfile, time
from . import build

TMP = os.path.join(build.BUILD, "tmp")


class RunnerCrash(Exception):
    def __init__(self, kind, detail, cmd):
        super().__init__("%s: %s" % (kind, detail[:300]))
        self.kind = kind          # 'crash' | 'timeout'
        self.detail = detail      # sanitizer report / stderr tail
        self.cmd = cmd


def _enc(obj):
    # bytes-like str: all code points must be < 256 (latin-1 convention)
    return json.dumps(obj, ensure_ascii=True)


class Runner:
    def __init__(self, flavour="asan", timeout=20.0, env_extra=None, max_alloc_mb=512):
        self.flavour = flavour
        self.timeout = timeout
        self.env_extra = dict(env_extra or {})
        self.env_extra.setdefault("max_alloc_mb", max_alloc_mb)
        self.proc = None
        self.errfile = None
        self.restarts = 0
        self.commands = 0
        self.generation = 0     # bumped on every (re)start: VM state inside the runner is gone

    # -- lifecycle
    def start(self):
        os.makedirs(TMP, exist_ok=True)
        fd, self.errfile = tempfile.mkstemp(prefix="err_", suffix=".txt", dir=TMP)
        os.close(fd)
        env = dict(os.environ)
        env["ASAN_OPTIONS"] = "detect_leaks=0:abort_on_error=0:allocator_may_return_null=0:max_allocation_size_mb=%d:detect_stack_use_after_return=0:handle_segv=1:symbolize=1" % int(self.env_extra.get("max_alloc_mb", 512))
        env["UBSAN_OPTIONS"] = "print_stacktrace=1:halt_on_error=0"
        env["TSAN_OPTIONS"] = "halt_on_error=0:report_signal_unsafe=0"
        for k, v in self.env_extra.items():
            if k.isupper():
                env[k] = v
        self.proc = subprocess.Popen([build.binary(self.flavour), "--errfile", self.errfile],
                                     stdin=subprocess.PIPE, stdout=subprocess.PIPE, env=env,
                                     cwd=TMP, bufsize=0)
        self._buf = b""
        self.generation += 1

    def close(self):
        if self.proc is not None:
            try:
                self.proc.kill()
                self.proc.wait(timeout=5)
            except Exception:
                pass
            for f in (self.proc.stdin, self.proc.stdout):
                try:
                    f.close()
                except Exception:
                    pass
            self.proc = None
        if self.errfile and os.path.exists(self.errfile):
            try:
                os.unlink(self.errfile)
            except OSError:
                pass
        self.errfile = None

    def restart(self):
        self.close()
        self.restarts += 1
        self.start()

    def _err_tail(self):
        try:
            with open(self.errfile, "rb") as f:
                data = f.read()
            return data[-6000:].decode("latin-1")
        except Exception:
            return ""

    # -- one command
    def cmd(self, obj, timeout=None):
        if self.proc is None or self.proc.poll() is not None:
            self.restart() if self.proc is not None else self.start()
        self.commands += 1
        line = (_enc(obj) + "\n").encode("ascii")
        try:
            self.proc.stdin.write(line)
            self.proc.stdin.flush()
        except (BrokenPipeError, OSError):
            detail = self._err_tail()
            self.restart()
            raise RunnerCrash("crash", detail or "broken pipe", obj)
        deadline = time.time() + (timeout or self.timeout)
        fd = self.proc.stdout.fileno()
        while b"\n" not in self._buf:
            remaining = deadline - time.time()
            if remaining <= 0:
                detail = self._err_tail()
                self.restart()
                raise RunnerCrash("timeout", "no reply within %.1fs\n%s" % (timeout or self.timeout, detail), obj)
            r, _, _ = select.select([fd], [], [], min(remaining, 1.0))
            if r:
                chunk = os.read(fd, 1 << 16)
                if not chunk:
                    self.proc.wait()
                    detail = self._err_tail()
                    rc = self.proc.returncode
                    self.restart()
                    raise RunnerCrash("crash", "runner exited rc=%s\n%s" % (rc, detail), obj)
                self._buf += chunk
        line, _, self._buf = self._buf.partition(b"\n")
        rep = json.loads(line.decode("ascii"))
        if "harness_error" in rep:
            raise RuntimeError("harness error: %s for %r" % (rep["harness_error"], obj))
        return rep

    # -- conveniences
    def new(self, vm=0, **kw):
        return self.cmd(dict(op="new", vm=vm, **kw))

    def run(self, sqf, vm=0, timeout=None, **kw):
        return self.cmd(dict(op="run", vm=vm, sqf=sqf, **kw), timeout=timeout)

    def asm(self, sqf, vm=0, **kw):
        return self.cmd(dict(op="asm", vm=vm, sqf=sqf, **kw))


def sanitizer_signature(text):
    """root-cause-ish key from a sanitizer report: kind + first frame in /repo/src"""
    import re
    kind = "unknown"
    m = re.search(r"ERROR: AddressSanitizer: ([\w-]+)", text)
    if m:
        kind = "asan:" + m.group(1)
    else:
        m = re.search(r"runtime error: ([^\n]{0,80})", text)
        if m:
            kind = "ubsan:" + re.sub(r"[-+]?\d[\d.e+]*", "N", m.group(1))[:60]
        elif "terminate called" in text or "libc++abi" in text:
            m2 = re.search(r"what\(\):\s*([^\n]*)", text)
            kind = "uncaught:" + (m2.group(1)[:60] if m2 else "exception")
        elif "ThreadSanitizer" in text:
            kind = "tsan:data-race"
    frame = ""
    for m in re.finditer(r"#\d+ 0x[0-9a-f]+ in (.+?) (/repo/src/[^\s:]+):(\d+)", text):
        fn = re.sub(r"\(.*", "", m.group(1))
        frame = "%s@%s" % (fn, os.path.basename(m.group(2)))
        break
    if not frame:
        m = re.search(r"(/repo/src/[^\s:]+):(\d+):\d+: runtime error", text)
        if m:
            frame = "%s:%s" % (os.path.basename(m.group(1)), m.group(2))
    return "%s|%s" % (kind, frame)
