"""Structured SQF programs over control constructs: generator (Hypothesis),
printer and a reference interpreter (the documented SQF semantics).

Used by C02 (semantics), C04 (fault injection), C05 (hostile blocks), C20.

AST (JSON-able lists)
  block      := [stmt...]
  stmt       := ["mark", k, [E...]]            T pushBack [k, e1, ...]       (value: index)
              | ["obs", k, E]                  T pushBack [k, E]             (value: index)
              | ["val", E]                     expression statement (its value is the block value if last)
              | ["set", name, E]               name = E                      (value: nil)
              | ["if", BE, block, block|None]
              | ["exitwith", BE, block]        if (BE) exitWith {block}
              | ["while", wid, n, BE|None, block]      private _w<wid> = 0; while {_w<wid> < n [&& BE]} do {_w<wid> = _w<wid> + 1; block}
              | ["for", var, a, b, s, block]
              | ["foreach", AE, block]
              | ["throw", E]
              | ["breakout", name, E|None]
              | ["scope", name]                scopeName "name"
  E          := ["n", x] | ["b", bool] | ["s", str] | ["a", [E...]] | ["v", name]
              | ["+", E, E] | ["-", E, E] | ["*", E, E] | ["<", E, E] | ["==", E, E] | ["!", E]
              | ["and", E, block] | ["or", E, block]
              | ["call", block, E|None]
              | ["ifv", E, block, block|None]
              | ["switch", E, [[ [label E...], block|None ]...], default_block|None, default_pos]
              | ["try", block, block]
              | ["count", E(array), block] | ["findif", E, block] | ["select", E, block] | ["apply", E, block]
"""
from hypothesis import strategies as st

NIL = None


def _f32(x):
    """SQF numbers are single precision"""
    import struct
    try:
        return struct.unpack("f", struct.pack("f", x))[0]
    except OverflowError:
        return float("inf") if x > 0 else float("-inf")


class Fault(Exception):
    """the reference semantics does not define this program (generator bug)"""


# ------------------------------------------------------------------ printer

def num(x):
    if float(x) == int(x):
        return str(int(x))
    return repr(float(x))


TRACE = ["T"]


def p_expr(e):
    k = e[0]
    if k == "ewx":
        return "(if (" + p_expr(e[1]) + ") exitWith " + p_block(e[2]) + ")"
    if k == "brx":
        return "(" + p_expr(e[2]) + ' breakOut "%s")' % e[1]
    if k == "thx":
        return "(throw " + p_expr(e[1]) + ")"
    if k == "n":
        return num(e[1]) if e[1] >= 0 else "(" + num(e[1]) + ")"
    if k == "b":
        return "true" if e[1] else "false"
    if k == "s":
        return '"' + e[1].replace('"', '""') + '"'
    if k == "a":
        return "[" + ", ".join(p_expr(x) for x in e[1]) + "]"
    if k == "v":
        return e[1]
    if k in ("+", "-", "*", "<", "==", ">", "<=", ">=", "!="):
        return "(" + p_expr(e[1]) + " " + k + " " + p_expr(e[2]) + ")"
    if k == "!":
        return "(!" + p_expr(e[1]) + ")"
    if k == "and":
        return "(" + p_expr(e[1]) + " && " + p_block(e[2]) + ")"
    if k == "or":
        return "(" + p_expr(e[1]) + " || " + p_block(e[2]) + ")"
    if k == "call":
        if e[2] is None:
            return "(call " + p_block(e[1]) + ")"
        return "(" + p_expr(e[2]) + " call " + p_block(e[1]) + ")"
    if k == "ifv":
        s = "(if (" + p_expr(e[1]) + ") then " + p_block(e[2])
        if e[3] is not None:
            s += " else " + p_block(e[3])
        return s + ")"
    if k == "switch":
        parts = []
        cases = list(e[2])
        items = []
        for labels, blk in cases:
            txt = ""
            for i, lab in enumerate(labels):
                last = i == len(labels) - 1
                if last and blk is not None:
                    txt += "case " + p_expr(lab) + ": " + p_block(blk) + "; "
                else:
                    txt += "case " + p_expr(lab) + "; "
            items.append(txt)
        if e[3] is not None:
            pos = min(e[4], len(items))
            items.insert(pos, "default " + p_block(e[3]) + "; ")
        return "(switch (" + p_expr(e[1]) + ") do { " + "".join(items) + "})"
    if k == "try":
        return "(try " + p_block(e[1]) + " catch " + p_block(e[2]) + ")"
    if k == "count":
        return "(" + p_block(e[2]) + " count " + p_expr(e[1]) + ")"
    if k == "findif":
        return "(" + p_expr(e[1]) + " findIf " + p_block(e[2]) + ")"
    if k == "select":
        return "(" + p_expr(e[1]) + " select " + p_block(e[2]) + ")"
    if k == "apply":
        return "(" + p_expr(e[1]) + " apply " + p_block(e[2]) + ")"
    raise ValueError(e)


def p_stmt(s):
    k = s[0]
    if k == "mark":
        return TRACE[0] + " pushBack [" + ", ".join([num(s[1])] + [p_expr(x) for x in s[2]]) + "]"
    if k == "obs":
        return TRACE[0] + " pushBack [" + num(s[1]) + ", " + p_expr(s[2]) + "]"
    if k == "val":
        return p_expr(s[1])
    if k == "set":
        return s[1] + " = " + p_expr(s[2])
    if k == "if":
        t = "if (" + p_expr(s[1]) + ") then " + p_block(s[2])
        if s[3] is not None:
            t += " else " + p_block(s[3])
        return t
    if k == "exitwith":
        return "if (" + p_expr(s[1]) + ") exitWith " + p_block(s[2])
    if k == "while":
        w = "_w%d" % s[1]
        cond = "%s < %s" % (w, num(s[2]))
        if s[3] is not None:
            cond += " && " + p_expr(s[3])
        body = [("%s = %s + 1" % (w, w))] + [p_stmt(x) for x in s[4]]
        return "private %s = 0; while {%s} do {%s}" % (w, cond, "; ".join(body))
    if k == "for":
        t = 'for "%s" from %s to %s' % (s[1], p_expr(["n", s[2]]), p_expr(["n", s[3]]))
        if s[4] is not None:
            t += " step " + p_expr(["n", s[4]])
        return t + " do " + p_block(s[5])
    if k == "foreach":
        return p_block(s[2]) + " forEach " + p_expr(s[1])
    if k == "throw":
        return "throw " + p_expr(s[1])
    if k == "breakout":
        if s[2] is None:
            return 'breakOut "%s"' % s[1]
        return p_expr(s[2]) + ' breakOut "%s"' % s[1]
    if k == "scope":
        return 'scopeName "%s"' % s[1]
    raise ValueError(s)


def p_block(b):
    return "{" + "; ".join(p_stmt(s) for s in b) + "}"


def p_program(b, trace="T"):
    TRACE[0] = trace
    try:
        return trace + " = []; " + "; ".join(p_stmt(s) for s in b) + ";"
    finally:
        TRACE[0] = "T"


def p_body(b, trace="T"):
    TRACE[0] = trace
    try:
        return "; ".join(p_stmt(s) for s in b)
    finally:
        TRACE[0] = "T"


# ------------------------------------------------------------------ reference interpreter

class _Exit(Exception):
    def __init__(self, value):
        self.value = value


class _Break(Exception):
    def __init__(self, name, value):
        self.name = name
        self.value = value


class _Throw(Exception):
    def __init__(self, value):
        self.value = value


class Model:
    def __init__(self):
        self.T = []
        self.glob = {}
        self.scopes = []          # dynamic chain of dicts for locals
        self.steps = 0

    # --- variables
    def get(self, name):
        if name.startswith("_"):
            for sc in reversed(self.scopes):
                if name.lower() in sc:
                    return sc[name.lower()]
            raise Fault("undefined local " + name)
        if name.lower() not in self.glob:
            raise Fault("undefined global " + name)
        return self.glob[name.lower()]

    def assign(self, name, v):
        if name.startswith("_"):
            for sc in reversed(self.scopes):
                if name.lower() in sc:
                    sc[name.lower()] = v
                    return
            self.scopes[-1][name.lower()] = v
        else:
            self.glob[name.lower()] = v

    # --- blocks: returns (value, left_early)
    def block(self, b, binds=None, catch_exit=True):
        self.scopes.append(dict(binds or {}))
        name = [None]
        try:
            return self._stmts(b, name), False
        except _Exit as ex:
            if not catch_exit:
                raise
            return ex.value, True
        except _Break as br:
            if name[0] is not None and br.name == name[0]:
                return br.value, True
            raise
        finally:
            self.scopes.pop()

    def _stmts(self, b, name):
        val = NIL
        for s in b:
            self.steps += 1
            if self.steps > 20000:
                raise Fault("model step budget")
            k = s[0]
            if k == "mark":
                self.T.append([float(s[1])] + [self.ev(x) for x in s[2]])
                val = float(len(self.T) - 1)
            elif k == "obs":
                v = self.ev(s[2])
                self.T.append([float(s[1]), v])
                val = float(len(self.T) - 1)
            elif k == "val":
                val = self.ev(s[1])
            elif k == "set":
                self.assign(s[1], self.ev(s[2]))
                val = NIL
            elif k == "if":
                c = self.ev(s[1])
                if c:
                    val, _ = self.block(s[2])
                elif s[3] is not None:
                    val, _ = self.block(s[3])
                else:
                    val = NIL
            elif k == "exitwith":
                if self.ev(s[1]):
                    v, _ = self.block(s[2])
                    raise _Exit(v)
                val = NIL
            elif k == "while":
                w = "_w%d" % s[1]
                self.scopes[-1][w] = 0.0
                val = NIL      # value of loops is not asserted; callers never observe it
                while True:
                    c = self.get(w) < s[2]
                    if c and s[3] is not None:
                        c = self.ev(s[3])
                    if not c:
                        break
                    body = [["set", w, ["+", ["v", w], ["n", 1]]]] + list(s[4])
                    _, left = self.block(body)
                    if left:
                        break
                val = ("LOOP",)
            elif k == "for":
                var, a, b2, st_, body = s[1], s[2], s[3], s[4], s[5]
                step = 1.0 if st_ is None else float(st_)
                v = float(a)
                if step == 0:
                    raise Fault("for step 0")
                while (v <= b2) if step > 0 else (v >= b2):
                    _, left = self.block(body, {var.lower(): v})
                    if left:
                        break
                    v = _f32(v + step)
                val = ("LOOP",)
            elif k == "foreach":
                arr = self.ev(s[1])
                for i, x in enumerate(list(arr)):
                    _, left = self.block(s[2], {"_x": x, "_foreachindex": float(i)})
                    if left:
                        break
                val = ("LOOP",)
            elif k == "throw":
                raise _Throw(self.ev(s[1]))
            elif k == "breakout":
                v = NIL if s[2] is None else self.ev(s[2])
                raise _Break(s[1], v)
            elif k == "scope":
                name[0] = s[1]
                val = NIL
            else:
                raise ValueError(s)
        return val

    def ev(self, e):
        k = e[0]
        if k == "ewx":
            if self.ev(e[1]):
                v, _ = self.block(e[2])
                raise _Exit(v)
            return NIL
        if k == "brx":
            raise _Break(e[1], self.ev(e[2]))
        if k == "thx":
            raise _Throw(self.ev(e[1]))
        if k == "n":
            return float(e[1])
        if k in ("b", "s"):
            return e[1]
        if k == "a":
            return [self.ev(x) for x in e[1]]
        if k == "v":
            return self.get(e[1])
        if k == "+":
            a, b = self.ev(e[1]), self.ev(e[2])
            return _f32(a + b)
        if k == "-":
            return _f32(self.ev(e[1]) - self.ev(e[2]))
        if k == "*":
            return _f32(self.ev(e[1]) * self.ev(e[2]))
        if k == "<":
            return self.ev(e[1]) < self.ev(e[2])
        if k == ">":
            return self.ev(e[1]) > self.ev(e[2])
        if k == "<=":
            return self.ev(e[1]) <= self.ev(e[2])
        if k == ">=":
            return self.ev(e[1]) >= self.ev(e[2])
        if k == "==":
            return self.ev(e[1]) == self.ev(e[2])
        if k == "!=":
            return self.ev(e[1]) != self.ev(e[2])
        if k == "!":
            return not self.ev(e[1])
        if k == "and":
            if not self.ev(e[1]):
                return False
            v, _ = self.block(e[2])
            return v
        if k == "or":
            if self.ev(e[1]):
                return True
            v, _ = self.block(e[2])
            return v
        if k == "call":
            binds = {}
            if e[2] is not None:
                binds["_this"] = self.ev(e[2])
            v, _ = self.block(e[1], binds)
            return v
        if k == "ifv":
            if self.ev(e[1]):
                return self.block(e[2])[0]
            if e[3] is not None:
                return self.block(e[3])[0]
            return NIL
        if k == "switch":
            v = self.ev(e[1])
            target = None
            matched = False
            pending = False
            for labels, blk in e[2]:
                for i, lab in enumerate(labels):
                    if self.ev(lab) == v:
                        pending = True
                    if i == len(labels) - 1 and blk is not None and pending:
                        target = blk
                        matched = True
                        break
                if matched:
                    break
            if not matched and e[3] is not None:
                target = e[3]
            if target is None:
                return NIL
            return self.block(target)[0]
        if k == "try":
            depth = len(self.scopes)
            try:
                return self.block(e[1])[0]
            except _Throw as t:
                del self.scopes[depth:]
                return self.block(e[2], {"_exception": t.value})[0]
        if k in ("count", "findif", "select", "apply"):
            arr = list(self.ev(e[1]))
            out = []
            cnt = 0
            for i, x in enumerate(arr):
                v, _ = self.block(e[2], {"_x": x})
                if k == "count":
                    cnt += 1 if v is True else 0
                elif k == "findif":
                    if v is True:
                        return float(i)
                elif k == "select":
                    if v is True:
                        out.append(x)
                else:
                    out.append(v)
            if k == "count":
                return float(cnt)
            if k == "findif":
                return -1.0
            return out
        raise ValueError(e)


def run_model(prog):
    m = Model()
    m.glob["t"] = m.T
    try:
        m.block(prog, catch_exit=True)
    except _Throw:
        raise Fault("uncaught throw")
    except _Break:
        raise Fault("uncaught breakOut")
    return m


def has_loop_value(v):
    if isinstance(v, tuple):
        return True
    if isinstance(v, list):
        return any(has_loop_value(x) for x in v)
    return False


# ------------------------------------------------------------------ value comparison with the VM's structural rendering

def vm_value(j):
    """runner value_json -> python value comparable with model values"""
    t = j["t"]
    if t == "nil":
        return None
    if t == "SCALAR":
        return float(j["v"]) if not isinstance(j["v"], str) else j["v"]
    if t == "BOOL":
        return bool(j["v"])
    if t == "STRING":
        return j["v"]
    if t == "ARRAY":
        return [vm_value(x) for x in j["v"]]
    return ("OTHER", t, str(j.get("v")))


# ------------------------------------------------------------------ generator

class Ctx:
    def __init__(self, depth, nums=(), in_try=False, scopes=(), loopvars=()):
        self.depth = depth
        self.nums = tuple(nums)        # numeric variables in scope
        self.in_try = in_try
        self.scopes = tuple(scopes)    # scope names dynamically enclosing
        self.counter = None

    def sub(self, **kw):
        c = Ctx(self.depth - 1, self.nums, self.in_try, self.scopes)
        c.counter = self.counter
        for k, v in kw.items():
            setattr(c, k, v)
        return c


@st.composite
def programs(draw, max_depth=4, max_stmts=5, features=None):
    """random structured program; `features` optionally restricts construct kinds"""
    counter = {"k": 0, "w": 0, "s": 0}
    feats = features

    def nextk():
        counter["k"] += 1
        return counter["k"]

    def numexpr(ctx, d=2):
        opts = ["lit"]
        if ctx.nums:
            opts += ["var", "var"]
        if d > 0:
            opts += ["bin"]
        c = draw(st.sampled_from(opts))
        if c == "lit":
            return ["n", draw(st.sampled_from([0, 1, 2, 3, 4, 5, 0.5, -1]))]
        if c == "var":
            return ["v", draw(st.sampled_from(ctx.nums))]
        op = draw(st.sampled_from(["+", "-", "*"]))
        return [op, numexpr(ctx, d - 1), ["n", draw(st.sampled_from([1, 2, 3]))]]

    def boolexpr(ctx, d=1):
        c = draw(st.sampled_from(["lit", "cmp", "cmp", "not", "lazy"] if d > 0 and ctx.depth > 0 else ["lit", "cmp"]))
        if c == "lit":
            return ["b", draw(st.booleans())]
        if c == "cmp":
            return [draw(st.sampled_from(["<", "==", ">", "<=", ">=", "!="])), numexpr(ctx, 1), numexpr(ctx, 1)]
        if c == "not":
            return ["!", boolexpr(ctx, d - 1)]
        # no direct exitWith/throw/breakOut in the lazy block: its value must be a boolean
        blk = block(ctx.sub(scopes=(), in_try=False), ends="bool", maxlen=2, plain=True)
        return [draw(st.sampled_from(["and", "or"])), boolexpr(ctx, 0), blk]

    def arrexpr(ctx):
        n = draw(st.integers(0, 4))
        return ["a", [["n", draw(st.sampled_from([0, 1, 2, 3, 5, 7]))] for _ in range(n)]]

    def valexpr(ctx):
        """value-yielding construct"""
        kinds = ["call", "call", "ifv", "switch", "try", "count", "findif", "select", "apply", "num", "bool", "str", "exitcall", "breakcall"]
        if feats:
            kinds = [k for k in kinds if k in feats] or ["num"]
        if ctx.in_try and "try" in kinds:
            kinds = kinds + ["try", "try", "try"]      # nested handlers (a handler that throws needs an enclosing one)
        if ctx.depth <= 0:
            kinds = ["num", "bool", "str"]
        k = draw(st.sampled_from(kinds))
        if k == "num":
            return numexpr(ctx)
        if k == "bool":
            return boolexpr(ctx)
        if k == "str":
            return ["s", draw(st.sampled_from(["", "a", "xy"]))]
        if k == "call":
            if draw(st.booleans()):
                arg = numexpr(ctx)
                return ["call", block(ctx.sub(nums=ctx.nums + ("_this",)), ends="any"), arg]
            return ["call", block(ctx.sub(), ends="any"), None]
        if k == "exitcall":
            # call { pre; if (c) exitWith {blk}; post }
            pre = block(ctx.sub(), ends="none", maxlen=2)
            ew = ["exitwith", boolexpr(ctx), block(ctx.sub(), ends="any", maxlen=2)]
            post = block(ctx.sub(), ends="any", maxlen=2)
            return ["call", pre + [ew] + post, None]
        if k == "breakcall":
            counter["s"] += 1
            nm = "s%d" % counter["s"]
            inner = block(ctx.sub(scopes=ctx.scopes + (nm,)), ends="any")
            return ["call", [["scope", nm]] + inner, None]
        if k == "ifv":
            els = block(ctx.sub(), ends="any") if draw(st.booleans()) else None
            return ["ifv", boolexpr(ctx), block(ctx.sub(), ends="any"), els]
        if k == "switch":
            ncase = draw(st.integers(0, 3))
            cases = []
            for _ in range(ncase):
                nl = draw(st.integers(1, 3))
                labels = [["n", draw(st.sampled_from([0, 1, 2, 3]))] for _ in range(nl)]
                blk = block(ctx.sub(), ends="any", maxlen=2) if draw(st.integers(0, 5)) > 0 else None
                cases.append([labels, blk])
            # a trailing bare `case x;` has no body to fall into: if it is the one that matches, nothing is selected and the switch yields nil
            # (it used to be excluded by construction while the switch yielded its internal SWITCH object; repaired since)
            dflt = block(ctx.sub(), ends="any", maxlen=2) if draw(st.booleans()) else None
            # (with a default block present the shape stays excluded: whether a matched body-less case still lets the default run is not
            # described by the property)
            if cases and cases[-1][1] is None and (dflt is not None or draw(st.integers(0, 2)) != 0):
                while cases and cases[-1][1] is None:
                    cases.pop()
            return ["switch", numexpr(ctx, 1), cases, dflt, draw(st.integers(0, 3))]
        if k == "try":
            tb = block(ctx.sub(in_try=True, scopes=()), ends="any")
            cb = block(ctx.sub(nums=ctx.nums + ("_exception",)), ends="any", maxlen=2)
            if ctx.in_try and draw(st.integers(0, 2)) == 0 and not (cb and cb[-1][0] in ("throw", "breakout")):
                # a handler that throws itself: the exception goes to the enclosing try
                cb = cb + [["throw", numexpr(ctx.sub(nums=ctx.nums + ("_exception",)))]]
            return ["try", tb, cb]
        if k in ("count", "findif", "select"):
            return [k, arrexpr(ctx), block(ctx.sub(nums=ctx.nums + ("_x",), scopes=(), in_try=False), ends="bool", maxlen=2, plain=True)]
        if k == "apply":
            sub = ctx.sub(nums=ctx.nums + ("_x",), scopes=(), in_try=False)
            blk = block(sub, ends="num", maxlen=2, plain=True)
            m = draw(st.integers(0, 7))
            if m == 0:
                blk = []                                   # no statement executed: every element yields nil
            elif m == 1:
                blk = blk + [["set", draw(st.sampled_from(["ga", "gb"])), numexpr(sub)]]   # the last statement leaves no value: nil
            return ["apply", arrexpr(ctx), blk]
        raise ValueError(k)

    def loopbody(ctx, binds):
        # every iteration is a scope of its own: it can be named again each time round, and breaking out of it ends the loop
        if (not feats or "breakout" in feats) and draw(st.integers(0, 3)) == 0:
            counter["s"] += 1
            nm = "s%d" % counter["s"]
            return [["scope", nm, "loop"]] + block(ctx.sub(nums=ctx.nums + binds, scopes=ctx.scopes + (nm,)), ends="none")
        return block(ctx.sub(nums=ctx.nums + binds), ends="none")

    def stmt(ctx, plain=False):
        kinds = ["mark", "mark", "obs", "obs", "set", "if", "while", "for", "foreach", "exitwith"]
        if ctx.in_try:
            kinds += ["throw"]
        if ctx.scopes:
            kinds += ["breakout", "breakout"]
        if feats:
            kinds = [k for k in kinds if k in feats or k in ("mark", "obs")]
        if ctx.depth <= 0:
            kinds = ["mark", "set"] + (["throw"] if ctx.in_try else []) + (["breakout"] if ctx.scopes else [])
        if plain:
            kinds = [k for k in kinds if k not in ("exitwith", "throw", "breakout")] or ["mark"]
        k = draw(st.sampled_from(kinds))
        if k == "mark":
            extra = [["v", v] for v in ctx.nums if draw(st.booleans())][:3]
            return ["mark", nextk(), extra]
        if k == "obs":
            return ["obs", nextk(), valexpr(ctx)]
        if k == "set":
            return ["set", draw(st.sampled_from(["ga", "gb"])), numexpr(ctx)]
        if k == "if":
            els = block(ctx.sub(), ends="none") if draw(st.booleans()) else None
            return ["if", boolexpr(ctx), block(ctx.sub(), ends="none"), els]
        if k == "exitwith":
            return ["exitwith", boolexpr(ctx), block(ctx.sub(), ends="any", maxlen=2)]
        if k == "while":
            counter["w"] += 1
            extra = boolexpr(ctx, 0) if draw(st.integers(0, 3)) == 0 else None
            wid = counter["w"]
            return ["while", wid, draw(st.integers(0, 4)), extra, loopbody(ctx, ("_w%d" % wid,))]
        if k == "for":
            var = draw(st.sampled_from(["_i", "_j", "_I"]))
            a = draw(st.sampled_from([0, 1, 2, 3, -1, 0.5]))
            b = draw(st.sampled_from([0, 1, 2, 3, 4, -2]))
            s = draw(st.sampled_from([None, None, 1, 2, 0.5, -1, -2]))
            return ["for", var, a, b, s, loopbody(ctx, (var,))]
        if k == "foreach":
            return ["foreach", arrexpr(ctx), loopbody(ctx, ("_x", "_forEachIndex"))]
        if k == "throw":
            return ["throw", numexpr(ctx)]
        if k == "breakout":
            nm = draw(st.sampled_from(ctx.scopes))
            v = numexpr(ctx) if draw(st.booleans()) else None
            return ["breakout", nm, v]
        raise ValueError(k)

    def block(ctx, ends="any", maxlen=None, plain=False):
        n = draw(st.integers(0, maxlen if maxlen is not None else max_stmts))
        out = []
        for _ in range(n):
            s = stmt(ctx, plain=plain)
            out.append(s)
            if s[0] in ("throw", "breakout"):
                break
        # the block's value must be defined by the reference semantics when it is observed
        if ends == "bool":
            out = [s for s in out if s[0] not in ("throw", "breakout")]
            out.append(["val", boolexpr(ctx, 0)])
        elif ends == "num":
            out = [s for s in out if s[0] not in ("throw", "breakout")]
            out.append(["val", numexpr(ctx)])
        elif ends == "any":
            if out and out[-1][0] in ("while", "for", "foreach", "if"):
                out.append(["mark", nextk(), []] if draw(st.booleans()) else ["val", numexpr(ctx)])
            elif draw(st.booleans()) and not (out and out[-1][0] in ("throw", "breakout")):
                out.append(["val", draw(st.sampled_from([numexpr(ctx), boolexpr(ctx, 0), ["s", "v"]]))])
        return out

    top = Ctx(max_depth, nums=("ga", "gb"))
    body = block(top, ends="none")
    return [["set", "ga", ["n", 1]], ["set", "gb", ["n", 2]]] + body


def features_of(prog):
    """labels for the distribution: construct kinds, early exits, nesting"""
    labs = set()

    def walk_block(b, depth, loops):
        for s in b:
            walk_stmt(s, depth, loops)

    def walk_stmt(s, depth, loops):
        k = s[0]
        if k in ("mark",):
            for e in s[2]:
                walk_e(e, depth, loops)
        elif k in ("obs", "val", "throw"):
            if k == "throw":
                labs.add("throw")
                if loops:
                    labs.add("throw_across_loop")
            walk_e(s[-1], depth, loops)
        elif k == "set":
            walk_e(s[2], depth, loops)
        elif k == "if":
            labs.add("if")
            walk_e(s[1], depth, loops)
            walk_block(s[2], depth + 1, loops)
            if s[3] is not None:
                walk_block(s[3], depth + 1, loops)
        elif k == "exitwith":
            labs.add("exitwith")
            walk_e(s[1], depth, loops)
            walk_block(s[2], depth + 1, loops)
        elif k == "while":
            labs.add("while")
            walk_block(s[4], depth + 1, loops + 1)
        elif k == "for":
            labs.add("for")
            walk_block(s[5], depth + 1, loops + 1)
        elif k == "foreach":
            labs.add("foreach")
            walk_block(s[2], depth + 1, loops + 1)
        elif k == "breakout":
            labs.add("breakout")
            if s[2] is not None:
                labs.add("breakout_value")
        elif k == "scope":
            labs.add("scopename")
            if len(s) > 2:
                labs.add("scopename_in_loop")
        if depth >= 2:
            labs.add("nest>=2")
        if depth >= 3:
            labs.add("nest>=3")

    def walk_e(e, depth, loops):
        k = e[0]
        if k in ("n", "b", "s", "v"):
            return
        if k == "a":
            for x in e[1]:
                walk_e(x, depth, loops)
        elif k in ("+", "-", "*", "<", "==", ">", "<=", ">=", "!="):
            walk_e(e[1], depth, loops); walk_e(e[2], depth, loops)
        elif k == "!":
            walk_e(e[1], depth, loops)
        elif k in ("and", "or"):
            labs.add("lazy")
            walk_e(e[1], depth, loops); walk_block(e[2], depth + 1, loops)
        elif k == "call":
            labs.add("call")
            walk_block(e[1], depth + 1, 0)
            if e[2] is not None:
                walk_e(e[2], depth, loops)
        elif k == "ifv":
            labs.add("ifv")
            walk_e(e[1], depth, loops); walk_block(e[2], depth + 1, loops)
            if e[3] is not None:
                walk_block(e[3], depth + 1, loops)
        elif k == "switch":
            labs.add("switch")
            for labels, blk in e[2]:
                if blk is None or len(labels) > 1:
                    labs.add("switch_fallthrough")
                if blk is not None:
                    walk_block(blk, depth + 1, loops)
            if e[3] is not None:
                labs.add("switch_default")
                walk_block(e[3], depth + 1, loops)
        elif k == "try":
            labs.add("try")
            if any(st_[0] == "throw" for st_ in e[2]):
                labs.add("throw_in_catch")
            walk_block(e[1], depth + 1, 0); walk_block(e[2], depth + 1, loops)
        elif k in ("count", "findif", "select", "apply"):
            labs.add(k)
            if k == "apply" and (not e[2] or e[2][-1][0] == "set"):
                labs.add("apply_yields_nil")
            walk_block(e[2], depth + 1, loops + 1)

    walk_block(prog, 0, 0)
    return labs
