[   
    ["assert",      { for "_i" from 0 to 3 do { assert (_i == 0); if true exitWith {}; }; }],
    ["assert",      { private _i = -1; while { _i = _i + 1; _i < 3 } do { assert (_i == 0); if true exitWith {}; }; }]
]