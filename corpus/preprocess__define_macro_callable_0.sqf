#define TEST() abc
#define EMPTY()
#define OTHER() TEST()
TEST
TEST()
EMPTY
EMPTY()
OTHER
OTHER()