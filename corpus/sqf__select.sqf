[   ["assertEqual",     { [1, 2, 3] select 1 }, 2],                             // ARRAY select SCALAR
    ["assertEqual",     { [1, 2, 3] select 1.6 }, 3],                           // ARRAY select SCALAR
    ["assertEqual",     { [1, 2, 3] select 1.5 }, 3],                           // ARRAY select SCALAR
    ["assertEqual",     { [1, 2, 3] select 1.4 }, 2],                           // ARRAY select SCALAR
    ["assertIsNil",     { [1, 2, 3] select 3 }],                                // ARRAY select SCALAR
    ["assertIsNil",     { [] select 0 }],                                       // ARRAY select SCALAR
    ["assertException", { [] select 1 }],                                       // ARRAY select SCALAR
    ["assertException", { [] select -1 }],                                      // ARRAY select SCALAR
    ["assertEqual",     { [1, 2] select true }, 2],                             // ARRAY select BOOL
    ["assertEqual",     { [1, 2] select false }, 1],                            // ARRAY select BOOL
    ["assertIsNil",     { [1] select true }],                                   // ARRAY select BOOL
    ["assertIsNil",     { [] select false }],                                   // ARRAY select BOOL
    ["assertEqual",     { "12345" select [0] }, "12345"],                       // STRING select ARRAY
    ["assertEqual",     { "12345" select [1] }, "2345"],                        // STRING select ARRAY
    ["assertEqual",     { "12345" select [0.6, 3] }, "234"],                    // STRING select ARRAY
    ["assertEqual",     { "12345" select [0, 3] }, "123"],                      // STRING select ARRAY
    ["assertEqual",     { "12345" select [1, 2] }, "23"],                       // STRING select ARRAY
    ["assertEqual",     { "" select [1] }, ""],                                 // STRING select ARRAY
    ["assertEqual",     { "" select [0, 10] }, ""],                             // STRING select ARRAY
    ["assertException", { "" select [] }, ""],                                  // STRING select ARRAY
    ["assertException", { "" select [true] }, ""],                              // STRING select ARRAY
    ["assertEqual",     { "" select [-1] }, ""],                                // STRING select ARRAY
    ["assertEqual",     { "test" select [0, -1] }, ""],                         // STRING select ARRAY
    ["assertException", { "test" select [0, true] }, ""],                       // STRING select ARRAY
    ["assertEqual",     { """" select [0, 1] }, """"],                          // STRING select ARRAY
    ["assertEqual",     { [1, 2, 3, 4, 5] select [0] }, []],                    // ARRAY select ARRAY
    ["assertEqual",     { [1, 2, 3, 4, 5] select [1] }, []],                    // ARRAY select ARRAY
    ["assertEqual",     { [1, 2, 3, 4, 5] select [0.6, 3] }, [2, 3, 4]],        // ARRAY select ARRAY
    ["assertEqual",     { [1, 2, 3, 4, 5] select [0, 3] }, [1, 2, 3]],          // ARRAY select ARRAY
    ["assertEqual",     { [1, 2, 3, 4, 5] select [1, 2] }, [2, 3]],             // ARRAY select ARRAY
    ["assertEqual",     { [] select [0, 10] }, []],                             // ARRAY select ARRAY
    ["assertEqual",     { [] select [10, 10] }, []],                            // ARRAY select ARRAY
    ["assertException", { [] select [] }, []],                                  // ARRAY select ARRAY
    ["assertException", { [] select [true] }, []],                              // ARRAY select ARRAY
    ["assertEqual",     { [1, 2, 3] select [-1] }, []],                         // ARRAY select ARRAY
    ["assertException", { [1, 2, 3] select [0, true] }, []],                    // ARRAY select ARRAY
    ["assertEqual",     { [1, 2, 3] select [0, -1] }, []],                      // ARRAY select ARRAY
    ["assertEqual",     { [1, 2, 3, 4, 5] select { _x > 2 } }, [3, 4, 5]],      // ARRAY select CODE
    ["assertEqual",     { [1, 2, 3, 4, 5] select { true } }, [1, 2, 3, 4, 5]],  // ARRAY select CODE
    ["assertEqual",     { [1, 2, 3, 4, 5] select { false } }, []],              // ARRAY select CODE
    ["assertEqual",     { [1, 2, 3, 4, 5] select { nil } }, []],                // ARRAY select CODE
    ["assertException", { [1, 2, 3, 4, 5] select { 1 } }, []],                  // ARRAY select CODE
    ["assertException", { [1, 2, 3, 4, 5] select { "" } }, []],                 // ARRAY select CODE
    ["assertException", { [1, 2, 3, 4, 5] select { [] } }, []],                 // ARRAY select CODE
    ["assertException", { [1, 2, 3, 4, 5] select { {} } }, []],                 // ARRAY select CODE
    ["assertEqual",     { [1, 2, 3, [1, 2, [1, ["score"]]]] select 3 select 2 select 1 select 0 }, "score"],                 // ARRAY select CODE
    ["assertException", { private _i = 0; private _arr = [1,2,3]; { _i = _i + 1; if (_i > 3) then { throw "Abort Endless Loop" }; _arr pushBack _x; 0 } select _arr }],
    ["assertEqual",     { [] select { true } }, []],                            // ARRAY select CODE


    ["assertEqual",     { selectMax [0,1,2,3,4] }, 4],                            // selectMax ARRAY
    ["assertEqual",     { selectMax [-1,-2,-3,-4] }, -1],                         // selectMax ARRAY
    ["assertEqual",     { selectMin [0,1,2,3,4] }, 0],                            // selectMin ARRAY
    ["assertEqual",     { selectMin [1,2,3,4,5] }, 1],                            // selectMin ARRAY
    ["assertEqual",     { selectMin [5,4,3,2,1] }, 1],                            // selectMin ARRAY
    ["assertEqual",     { selectMin [-1,-2,-3,-4,-5] }, -5],                      // selectMin ARRAY
    ["assertEqual",     { selectMin [-5,-4,-3,-2,-1] }, -5],                            // selectMin ARRAY
    ["assertEqual",     { selectRandom [0,0,0,0,0] }, 0],                         // selectRandom ARRAY
    ["assertEqual",
    [
        "Frame-Variables Cleared before each repetition.",
        {
            private _out = [];
            [1, 2] select
            {
                if !isNil "_something" then
                {
                    _out pushBack _i;
                };
                _something = 1;
                false
            };
            _out
        }
    ], []]
]