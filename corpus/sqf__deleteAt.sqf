[   ["assertEqual",     ["Returns deleted value", { private _arr = [1,2,3]; _arr deleteAt 1 } ], 2],                // ARRAY deleteAt SCALAR: Returns deleted value
    ["assertIsNil",     ["Positive Out Of Bounds returns nil", { private _arr = [1,2,3]; _arr deleteAt 10 } ] ],    // ARRAY deleteAt SCALAR: Positive Out Of Bounds returns nil
    ["assertIsNil",     ["Negative Out Of Bounds returns nil", { private _arr = [1,2,3]; _arr deleteAt -1 } ] ]     // ARRAY deleteAt SCALAR: Negative Out Of Bounds returns nil
]