[   ["assertEqual",  { private _arr = [1,0,1]; [_arr, _arr apply { _arr set [_x, 0]; 9 }]}, [[0,0,1], [9,9,9]]],
    ["assertException", { private _i = 0; private _arr = [1,2,3]; { _i = _i + 1; if (_i > 3) then { throw "Abort Endless Loop" }; _arr pushBack _x; 0 } apply _arr }],
    ["assertEqual",
    [
        "Frame-Variables Cleared before each repetition.",
        {
            private _out = [];
            [1, 2] apply
            {
                if !isNil "_something" then
                {
                    _out pushBack _something;
                };
                _something = 1;
                false
            };
            _out
        }
    ], []]
]