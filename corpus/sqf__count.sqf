[   ["assertEqual",     { count [] }, 0],                        //      count ARRAY
    ["assertEqual",     { count [1, 2, 3] }, 3],                 //      count ARRAY
    ["assertEqual",     { count [[1, 1, 1], [2, 2, 2]] }, 2],    //      count ARRAY
    ["assertEqual",     { count "123" }, 3],                     //      count STRING
    ["assertEqual",     { count "" }, 0],                        //      count STRING
    ["assertEqual",     { count "123456789" }, 9],               //      count STRING
    ["assertEqual",     { { _x == 0 } count [1, 2, 3] }, 0],     // CODE count ARRAY
    ["assertEqual",     { { _x == 1 } count [1, 2, 3] }, 1],     // CODE count ARRAY
    ["assertEqual",     { { _x == 1 } count [] }, 0],            // CODE count ARRAY
    ["assertEqual",     { { nil } count [1, 2, 3] }, 0],         // CODE count ARRAY
    ["assertEqual",     { { _x == 0 } count [] }, 0],            // CODE count ARRAY
    ["assertEqual",     { { _x == 0 } count [1, 2, 3] }, 0],     // CODE count ARRAY
    ["assertEqual",     { { _x == 0 } count [0] }, 1],           // CODE count ARRAY
    ["assertEqual",     { { _x == 0 } count [0, 0] }, 2],        // CODE count ARRAY
    ["assertEqual",     { {} count [0] }, 0],                    // CODE count ARRAY
    ["assertException", { { 1 } count [0] }],                    // CODE count ARRAY
    ["assertException", { { {} } count [0] }],                   // CODE count ARRAY
    ["assertException", { { [] } count [0] }],                   // CODE count ARRAY
    ["assertException", { {""} count [0] }],                     // CODE count ARRAY
    ["assertEqual",     { { _x > 1 } count [1, 2, 3] }, 2],      // CODE count ARRAY
    ["assertEqual",     { { _x > 1 } count [] }, 0],             // CODE count ARRAY
    ["assertException", { private _i = 0; private _arr = [1,2,3]; { _i = _i + 1; if (_i > 3) then { throw "Abort Endless Loop" }; _arr pushBack _x; false } count _arr }],
    ["assertEqual",
        [
            "Frame-Variables Cleared before each repetition.",
            {
                private _out = [];
                {
                    if !isNil "_something" then
                    {
                        _out pushBack _i;
                    };
                    _something = 1;
                    false
                }
                count [1, 2];
                _out
            }
        ], []
    ]
]