class nested_tests
{
    node = "0";
    class nested1
    {
        node = "1";
        class nested2
        {
            node = "2";
            class nested3
            {
                node = "3";
                class nested4
                {
                    node = "4";
                };
            };
        };
    };
};
class type_tests
{
    type_array[] = { 1, "test", { 1, 2, 3 } };
    type_string = "test";
    type_anytext = any fancy text should be accepted;
    type_anytext_array[] = { any, fancy, text, should, be, accepted };
    type_scalar = 1;
    class type_class {};
};
class flat_tests {
    class A { key = 1; };
    class B { key = 2; };
    class C: A {};
    class D: C { key = 4; };
    class E: B { key = 5; };
};
class test_select_selects_addon
{
    class addon {};
};

class test_config_classes_only_returns_config_entries
{
    property = 0;
    class TestSub
    {
        subProperty = 0;
    }; 
};