[   ["assertEqual", { private _arr2 = [0,1,2,3,4,5]; { _arr2 deleteAt _x; } forEach _arr2; _arr2 }, [1,2,4,5]],                                                 // CODE forEach ARRAY
    ["assertEqual", { private _arr2 = [5,4,3,2,1,0]; { _arr2 deleteAt _x; } forEach _arr2; _arr2 }, [5,4,3]],                                                    // CODE forEach ARRAY
    ["assertException", { private _i = 0; private _arr = [1,2,3]; { _i = _i + 1; if (_i > 3) then { throw "Abort Endless Loop" }; _arr pushBack _x; } forEach _arr }],
    ["assertEqual",
        [
            "Frame-Variables Cleared before each repetition.",
            {
                private _arr = [];
                {
                    if !isNil "_i" then
                    {
                        _arr pushBack _i;
                    };
                    _i = 1;
                } forEach [1,2,3];
                _arr
            }
        ], []
    ],
    ["assertEqual",
        [
            "Frame iterates all values.",
            {
                private _arr = [];
                {
                    _arr pushBack _x;
                } forEach [1,2,3];
                _arr
            }
        ], [1, 2, 3]
    ]
]