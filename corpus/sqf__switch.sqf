[
	[
        "assertEqual",
        [
            "switch cases from call",
            {
                private _arr = [];
                private _cases = {
                    case 1: {_arr pushBack "inside 1"; "a"}; 
                    _arr pushBack "past case 1";
                    case 2: {_arr pushBack "inside 2"; "b"};
                    _arr pushBack "past case 2";
                    case 3: {_arr pushBack "inside 3"; "c"};
                    _arr pushBack "past case 3";
                    default {_arr pushBack "inside default"; "default"};
                    _arr pushBack "past default";
                };
                private _res = switch 2 do {
                    [] call {
                        [] call _cases;
                        _arr pushBack "past cases inner"
                    };
                    _arr pushBack "past cases call outter";
                };
                _arr pushBack _res;
                _arr
            }
        ],
        ["past case 1","past cases inner","past cases call outter","inside 2","b"]
    ],
	[
        "assertEqual",
        {
            private _arr = [];
			switch (1) do
			{
			  private _case = case 1;
			  switch (2) do
			  {
				  case 2: { _arr pushBack "empty"; };
				  _case: { _arr pushBack "arg"; };
			  };
			  default { _arr pushBack "magic"; };
			};
            _arr
        },
        ["empty", "magic"]
    ],
    ["assert", { switch(2) do { case 1: {}; }; }]
]