[   ["assertTrue",      { private _test = nil; isNil "_test"; }],
    ["assertFalse",     { private _test = 1; isNil "_test"; }],
    ["assertTrue",      { isNil { nil } }],
    ["assertFalse",     { isNil { 1 } }]
]