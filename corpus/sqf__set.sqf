[   ["assertEqual",     { private _arr = [];    _arr set [0,1]; _arr }, [1]],                       // ARRAY set ARRAY
    ["assertEqual",     { private _arr = [0];   _arr set [0,1]; _arr }, [1]],                       // ARRAY set ARRAY
    ["assertEqual",     { private _arr = [0];   _arr set [0,""]; _arr }, [""]],                     // ARRAY set ARRAY
    ["assertEqual",     { private _arr = [0];   _arr set [1,1]; _arr }, [0,1]],                     // ARRAY set ARRAY
    ["assertEqual",     { private _arr = [0];   _arr set [1,""]; _arr }, [0,""]],                   // ARRAY set ARRAY
    ["assertIsNil",     { private _arr = [];    _arr set [1,1]; _arr#0 }],                          // ARRAY set ARRAY
    ["assertEqual",     { private _arr = [0];   _arr set [count _arr,1]; _arr }, [0,1]],            // ARRAY set ARRAY
    ["assertEqual",     { private _arr = [0];   _arr set [count _arr - 1, 1]; _arr }, [1]],         // ARRAY set ARRAY
    ["assertException", { [] set [-1,1] }]                                                          // ARRAY set ARRAY
]