[   ["assertEqual",     { [1, 2, 3] findIf { _x == 1 } }, 0],
    ["assertEqual",     { [1, 2, 3] findIf { _x == 2 } }, 1],
    ["assertEqual",     { [1, 2, 3] findIf { _x == 3 } }, 2],
    ["assertEqual",     { [1, 2, 3] findIf { _x > 5 } }, -1],
    ["assertEqual",     { [] findIf {_x > 1} }, -1],
    ["assertException", { private _i = 0; private _arr = [1, 2, 3]; _arr findIf { _i = _i + 1; if (_i > 3) then { throw "Abort Endless Loop" }; _arr pushBack _x; false } }],
    ["assertEqual",
        [
            "Frame-Variables Cleared before each repetition.",
            {
                private _out = [];
                [1, 2] findIf
                {
                    if !isNil "_something" then {
                        _out pushBack _i;
                    };
                    _something = 1;
                    false
                };
                _out
            }
        ], []
    ]
]