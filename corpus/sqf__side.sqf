[
    ["assert", { side objectNull }]
]