/*********************************************************
 * The following SQF code REQUIRES SQF-VM                *
 * to work. There are special, SQF-VM only commands      *
 * used, to make it as productive as possible.           *
 *                                                       *
 * SQF-VM commands are suffixed with a double underscore *
 * (eg. exitcode__)                                      *
 ********************************************************/


// #define _TEST_FRAMEWORK_DEBUG


#ifdef _TEST_FRAMEWORK_DEBUG
#define DIAGNOSTICS(MESSAGE) diag_log #MESSAGE
#define DIAGNOSTICS_EXEC(MESSAGE) diag_log (MESSAGE)
#else
#define DIAGNOSTICS(MESSAGE)
#define DIAGNOSTICS_EXEC(MESSAGE)
#endif
#define COMMA ,

diag_log str productVersion;
diag_log format(["%1"] + productVersion);
diag_log format(["v %3.%4 (%5)"] + productVersion);
diag_log format(["%7 %8"] + productVersion);

testsIndex = 0;
testsPassed = 0;
testsFailed = 0;
fatalError = false;

test_fnc_testPassed = {
    params["___name___", "___desc___", "___index___"];
    DIAGNOSTICS(TEST PASSED);
    diag_log format["Test  Passed  '%1' - %2", ___name___, ___index___ + 1];
    testsPassed = testsPassed + 1;
};

test_fnc_testFailed = {
    params["___name___", "___desc___", "___index___", "___msg___"];
    DIAGNOSTICS(TEST FAILED);
    private _msg1 = format["Test !FAILED! '%1' - %2  %3", ___name___, ___index___ + 1, trim__ ___desc___];
    diag_log _msg1;
    diag_log ___msg___;
    ___failed___ pushBack _msg1;
    testsFailed = testsFailed + 1;
};

test_fnc_assertEqual = {
    [_this, {
        params["___name___", "___test___", "___desc___", "___index___", "___compare___"];
        private ___ret___ = call ___test___;
        DIAGNOSTICS_EXEC(format ["___ret___: %1" COMMA ___ret___]);
        DIAGNOSTICS_EXEC(format ["___compare___: %1" COMMA ___compare___]);
        if (___ret___ isEqualTo ___compare___) then
        {
            [___name___, ___desc___, ___index___] call test_fnc_testPassed;
        }
        else
        {
            private ___msg___ = format[
                "Wrong return value. Expected %1 (type %2), got %3 (type %4).",
                ___compare___,
                typeName ___compare___,
                ___ret___,
                typeName ___ret___
            ];
            [___name___, ___desc___, ___index___, ___msg___] call test_fnc_testFailed;
        }
    }] call test_fnc_exceptWrapper;
};

test_fnc_assert = {
    [_this, {
        params["___name___", "___test___", "___desc___", "___index___", "___compare___"];
        private ___ret___ = call ___test___;
        [___name___, ___desc___, ___index___] call test_fnc_testPassed;
    }] call test_fnc_exceptWrapper;
};

test_fnc_assertIsNil = {
    [_this, {
        params["___name___", "___test___", "___desc___", "___index___", "___compare___"];
        private ___ret___ = call ___test___;
        if (isNil "___ret___") then
        {
            [___name___, ___desc___, ___index___] call test_fnc_testPassed;
        }
        else
        {
            private ___msg___ = format["Wrong return value. Expected nil, got %1 (type %2).",  ___ret___, typeName ___ret___];
            [___name___, ___desc___, ___index___, ___msg___] call test_fnc_testFailed;
        }
    }] call test_fnc_exceptWrapper;
};

test_fnc_assertException = {
    [_this, {
        params["___name___", "___test___", "___desc___", "___index___"];
        {
            private ___ret___ = call ___test___;
            private ___msg___ = format["Never reached except. Returned: %1", ___ret___];
            [___name___, ___desc___, ___index___, ___msg___] call test_fnc_testFailed;
        }
        except__
        {
            [___name___, ___desc___, ___index___] call test_fnc_testPassed;
        }
    }] call test_fnc_exceptWrapper;
};

test_fnc_exceptWrapper = {
    params["___exceptWrapper_args___", "___exceptWrapper_code___"];
    {
        ___exceptWrapper_args___ call ___exceptWrapper_code___
    }
    except__
    {
        private ___msg___ = format["Exception occurred: %1",  _exception];
        [___exceptWrapper_args___ select 0, ___exceptWrapper_args___ select 2, ___exceptWrapper_args___ select 3, ___msg___] call test_fnc_testFailed;
    }
};
test_fnc_setupWrapper = {
    params["___setupWrapper_args___", "___setupWrapper_code___"];
    {
        ___setupWrapper_args___ call ___setupWrapper_code___
    }
    except__
    {
        private ___msg___ = format["Exception occurred during setup: %1",  _exception];
        fatalError = true;
    }
};
test_fnc_cleanup_carraige_return = {
    params["___text___"];
    toString (toArray ___text___ select { /* take all chars but carraige return '\r' */ _x != 13 });
};

test_fnc_run_from_file = {
    private ___exceptions___ = [];
    private ___failed___ = [];
    private ___file___ = _this;

    diag_log format["Loading tests from"];
    diag_log format["    %1", ___file___];

    DIAGNOSTICS_EXEC(format["Going to execute file: %1", ___file___]);
    DIAGNOSTICS_EXEC(format["%1 out of %2 tests passed." COMMA testsPassed COMMA testsIndex]);

    {
        private ___tests___ = call compile preprocessFileLineNumbers ___file___;
        private ___name___ = ___file___; // TODO
        if (isNil "___tests___") then 
        {
            exitcode__(999999);
        };
        private ___setup___ = { [] call _this; };
        if !(___tests___ isEqualType []) then
        {
            throw format["Invalid type. Expected ARRAY; Got %1", typeName ___tests___];
            fatalError = true;
        };
        {
            DIAGNOSTICS_EXEC(format["%1 out of %2 tests passed." COMMA testsPassed COMMA testsIndex]);
            testsIndex = testsIndex + 1;
            private ___mode___ = _x select 0;
            private ___test___ = _x select 1;
            private ___desc___ = if (___test___ isEqualType[]) then { ___test___ select 0 } else { str(___test___) };
            private ___code___ = if (___test___ isEqualType[]) then { ___test___ select 1 } else { ___test___ };
                
            private ___res___ = false;
            if (___mode___ isEqualType "") then
            {
                switch (___mode___) do
                {
                    case "setup": {
                        DIAGNOSTICS_EXEC("___mode___ is setup");
                        ___setup___ = ___code___;
                        testsIndex = testsIndex - 1;
                    };
                    case "assert": {
                        DIAGNOSTICS_EXEC("___mode___ is assert");
                        [{
                            [___name___, ___code___, ___desc___, _forEachIndex, true] call test_fnc_assert
                        }, ___setup___] call test_fnc_setupWrapper;
                    };
                    case "assertTrue": {
                        DIAGNOSTICS_EXEC("___mode___ is assertTrue");
                        [{
                            [___name___, ___code___, ___desc___, _forEachIndex, true] call test_fnc_assertEqual
                        }, ___setup___] call test_fnc_setupWrapper;
                    };
                    case "assertFalse": {
                        DIAGNOSTICS_EXEC("___mode___ is assertFalse");
                        [{
                            [___name___, ___code___, ___desc___, _forEachIndex, false] call test_fnc_assertEqual
                        }, ___setup___] call test_fnc_setupWrapper;
                    };
                    case "assertEqual": {
                        DIAGNOSTICS_EXEC("___mode___ is assertEqual");
                        [{
                            [___name___, ___code___, ___desc___, _forEachIndex, _x select 2] call test_fnc_assertEqual
                        }, ___setup___] call test_fnc_setupWrapper;
                    };
                    case "assertNil";
                    case "assertIsNil": {
                        DIAGNOSTICS_EXEC("___mode___ is assertNil");
                        [{
                            [___name___, ___code___, ___desc___, _forEachIndex] call test_fnc_assertIsNil
                        }, ___setup___] call test_fnc_setupWrapper;
                    };
                    case "assertExcept";
                    case "assertException": {
                        DIAGNOSTICS_EXEC("___mode___ is assertException");
                        [{
                            [___name___, ___code___, ___desc___, _forEachIndex] call test_fnc_assertException
                        }, ___setup___] call test_fnc_setupWrapper;
                    };
                    default {
                        throw format["Unknown Test-Type %1 in %2-%3 (%4)", ___mode___, ___name___, _forEachIndex + 1, ___desc___];
                        fatalError = true;
                    }
                }
            }
            else
            {
                if (___mode___ isEqualType {}) then
                {
                    DIAGNOSTICS_EXEC("___mode___ is CODE");
                    ___res___ = [___name___, ___test___, _forEachIndex, _x] call ___mode___;
                }
                else
                {
                    throw format["Test-Type was expected to be either STRING or CODE but was %1", typeName ___mode___];
                    fatalError = true;
                };
            };
        } forEach ___tests___;
    }
    except__
    {
        private _msg = format["Exception during test execution of %1: %2%3", _x, endl, _exception];
        diag_log _msg;
        ___exceptions___ pushBack _msg;
        fatalError = true;
    };
    diag_log "############################################################";
    diag_log format["%1 out of %2 tests passed.", testsPassed, testsIndex];
    diag_log "############################################################";
    {
        diag_log _x;
    } forEach ___failed___;
    if (testsPassed != testsIndex) then
    {
        diag_log "############################################################";
        diag_log format["%1 out of %2 tests passed.", testsPassed, testsIndex];
        diag_log "############################################################";
    };
    if (fatalError) then
    {
        diag_log "FATALERROR occured during testing:";
        {
            diag_log _x;
        } forEach ___exceptions___;
        exitCode__ - 1;
    }
    else
    {
        diag_log "";
        diag_log(["FAILED", "SUCCESS"] select(testsPassed == testsIndex));
        exitcode__(testsIndex - testsPassed);
    };
};
