[   ["assertTrue",  { alive player }],
    ["assertFalse", { alive objNull }]
]