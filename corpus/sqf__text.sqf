[   ["assertEqual",      { str composeText ["hello", " ", "world"] }, "hello world"],
    ["assertEqual",      { typeName composeText ["hello", " ", "world"] }, "TEXT"],
    ["assertEqual",      { str lineBreak }, toString [13, 10]], // \r\n
    ["assertEqual",      { typeName lineBreak }, "TEXT"],
    ["assertEqual",      { str parseText "hello world" }, "hello world"],
    ["assertEqual",      { typeName parseText "hello world" }, "TEXT"],
    ["assertEqual",      { str text "hello world" }, "hello world"],
    ["assertEqual",      { typeName text "hello world" }, "TEXT"]
]
