[
    ["assertException",
        [
            "Unknown scope errors",
            {
                private _arr = [];
                [] call {
                    _arr pushBack 1;
                    [] call {
                        _arr pushBack 2;
                        [] call {
                          _arr pushBack 3;
                          breakOut "someunknowngiberishstuffyscope";
                          _arr pushBack 3;
                        };
                      _arr pushBack 2;
                    };
                    _arr pushBack 1;
                };
                _arr
            }
        ],
        [1, 2, 3]
    ],
    ["assertEqual",
        [
            "Empty scope leaves current scope",
            {
                private _arr = [];
                [] call {
                    _arr pushBack 1;
                    [] call {
                        _arr pushBack 2;
                        [] call {
                          _arr pushBack 3;
                          breakOut "";
                          _arr pushBack 3;
                        };
                      _arr pushBack 2;
                    };
                    _arr pushBack 1;
                };
                _arr
            }
        ],
        [1, 2, 3, 2, 1]
    ],
    ["assertEqual",
        [
            "breakOut actually works",
            {
                private _arr = [];
                [] call {
                    _arr pushBack 1;
                    [] call {
                        _arr pushBack 2;
                        scopeName "test-scope";
                        [] call {
                          _arr pushBack 3;
                          breakOut "test-scope";
                          _arr pushBack 3;
                        };
                      _arr pushBack 2;
                    };
                    _arr pushBack 1;
                };
                _arr
            }
        ],
        [1, 2, 3, 1]
    ],
    ["assertEqual",
        [
            "breakOut works with value",
            {
                private _arr = [];
                [] call {
                    _arr pushBack 1;
                    _arr pushBack ([] call {
                        _arr pushBack 2;
                        scopeName "test-scope";
                        [] call {
                          _arr pushBack 3;
                          true breakOut "test-scope";
                          _arr pushBack 3;
                          false
                        };
                      _arr pushBack 2;
                      false
                    });
                    _arr pushBack 1;
                    false
                };
                _arr
            }
        ],
        [1, 2, 3, true, 1]
    ]
]