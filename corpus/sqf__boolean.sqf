[   ["assertTrue",      { true }],                                                       // BOOL
    ["assertFalse",     { false }],                                                      // BOOL
    ["assertTrue",      { true == true }],                                               // BOOL op BOOL
    ["assertTrue",      { false == false }],                                             // BOOL op BOOL
    ["assertTrue",      { true isEqualTo true }],                                        // BOOL isEqualTo BOOL
    ["assertTrue",      { false isEqualTo false }],                                      // BOOL isEqualTo BOOL
    ["assertFalse",     { true isEqualTo false }],                                       // BOOL isEqualTo BOOL
    ["assertFalse",     { false isEqualTo true }],                                       // BOOL isEqualTo BOOL
    ["assertTrue",      { true && true }],                                               // BOOL && BOOL
    ["assertFalse",     { true && false }],                                              // BOOL && BOOL
    ["assertFalse",     { false && true }],                                              // BOOL && BOOL
    ["assertFalse",     { false && { true } }],                                          // BOOL && CODE
    ["assertTrue",      { false || true }],                                              // BOOL || BOOL
    ["assertTrue",      { false || { true } }],                                          // BOOL || CODE
    ["assertTrue",      { !false }],                                                     // BOOL || CODE
    ["assertFalse",     { !true  }],                                                     // BOOL || CODE
    ["assertTrue",      { not false }],                                                  // BOOL || CODE
    ["assertFalse",     { not true }],                                                   // BOOL || CODE
    ["assertFalse",     { false isEqualTo true }]                                        // BOOL isEqualTo BOOL
]
