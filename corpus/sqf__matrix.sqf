[   ["assertEqual",      { [[2], [2]] matrixMultiply [[3]] }, [[6], [6]]],
    ["assertEqual",      { [[-1,0,0], [0,-1,0]]  matrixMultiply [[1,2], [3,1], [2,3]] }, [[-1,-2], [-3,-1]]],
    ["assertEqual",      { [[-1,0,0], [0,-1,0], [0,0,-1]] matrixMultiply [1, 2, 3] }, []],
    ["assertEqual",      { [[-1,0,0], [0,-1,0], [0,0,-1]] matrixMultiply [[1, 2, 3]] }, []],
    ["assertEqual",      { [[-1,0,0], [0,-1,0], [0,0,-1]] matrixMultiply [[1], [2], [3]] }, [[-1], [-2], [-3]]],
    ["assertEqual",      { matrixTranspose [[1,2,3]] }, [[1], [2], [3]]],
    ["assertEqual",      { matrixTranspose [[1], [2], [3]] }, [[1,2,3]]],
    ["assertEqual",      { matrixTranspose [[1,2,3], [3,1,2], [2,3,1]] }, [[1,3,2], [2,1,3], [3,2,1]]]
]
