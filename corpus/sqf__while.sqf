[   ["assertEqual",     { private _i = 0; while { false } do { _i = 1 }; _i }, 0],                // while CODE do CODE: condition false
    ["assertIsNil",     { while { false } do {} } ],                                              // while CODE do CODE: condition false
    ["assertException", { while { } do {} } ],                                                    // while CODE do CODE: condition empty
    ["assertException", { while { "" } do {} } ],                                                 // while CODE do CODE: condition not BOOL
    ["assertIsNil",     { while { nil } do {} } ],                                                // while CODE do CODE: condition nil
    ["assertEqual",     { private _i = 0; while { _i == 0 } do { _i = 1 }; _i }, 1],              // while CODE do CODE: condition true before body executed
    ["assertEqual",     { private _i = 0; while { _i = _i + 1; _i < 5 } do {}; _i }, 5],          // while CODE do CODE: empty body
    ["assertEqual",     { private _i = 0; while { _i = _i + 1; _i < 5 } do { nil }; _i }, 5],     // while CODE do CODE: nil body
    ["assertEqual",     { private _i = 0; while { _i < 5 } do { _i = _i + 1; }; _i }, 5],         // while CODE do CODE: normal body
    ["assertEqual",     ["while loop limit of 10000 in unscheduled", { private _iterations = 0; while { _iterations < 10001 } do { _iterations = _iterations + 1; }; _iterations }], 10000],         // while CODE do CODE: normal body
    ["assertEqual",
        [
            "Frame-Variables Cleared before each repetition.",
            {
                private _arr = [];
                private _i = 0;
                while { _i < 2 } do
                {
                    _i = _i + 1;
                    if !isNil "_something" then
                    {
                        _arr pushBack _i;
                    };
                    _something = 1;
                };
                _arr
            }
        ], []
    ]
]