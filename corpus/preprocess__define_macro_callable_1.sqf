#define TEST(ARG1) ARG1 ARG1 ARG1
#define EMPTY(ARG1)
#define OTHER(ARG1) ARG1: TEST(ARG1)
TEST
TEST(something-1)
EMPTY
EMPTY(something-1)
OTHER
OTHER(something-1)