[   ["assertEqual",     { private _arr = []; _arr append [1]; _arr; }, [1]],
    ["assertEqual",     { private _arr = [1]; _arr append []; _arr; }, [1]],
    ["assertEqual",     { private _arr = [1]; _arr append [2]; _arr; }, [1, 2]],
    ["assertEqual",     { private _arr = [1]; _arr append [2]; _arr append [3]; _arr; }, [1, 2, 3]],
    ["assertEqual",     { private _arr = [1, 2]; _arr append [3, 4]; _arr; }, [1, 2, 3, 4]]
]
