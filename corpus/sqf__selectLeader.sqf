[   ["setup",      { private _group = grpNull; private _unitA = objNull; private _unitB = objNull; [] call _this; /* todo: delete */}],
    ["assert",     { grpNull selectLeader objNull; }, ""],
    ["assert",     { grpNull selectLeader player; }, ""],
    ["assert",     { grpNull selectLeader objNull; }, ""]
]