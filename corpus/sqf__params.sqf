[  ["assertEqual",     { 1 call { params ["_test"]; _test } }, 1],
   ["assertEqual",     { true call { params ["_test"]; _test } }, true],
   ["assertEqual",     { "" call { params ["_test"]; _test } }, ""],
   ["assertEqual",     { [1,2,3] params [["_array", [], [[]]], ["_inPlace", false, [false]]]; [_array, _inPlace] }, [[], false]]
]