[   
    ["assertTrue",      { diag_tickTime > 0 }],
    ["assertTrue",      { assert(true) }],
    ["assertException", { assert(false) }],
	["assertEqual",     { productVersion }, productVersion],
	["assertEqual",     { typename "" }, "STRING"],
	["assertEqual",     { typename 1 }, "SCALAR"],
	["assertEqual",     { typename player }, "OBJECT"],
	["assertEqual",     { typename missionNamespace }, "NAMESPACE"],
	["assertEqual",     { typename grpNull }, "GROUP"], //#TODO add the other types
	["assertNil",       { comment "hah!" }],
	["assertException", { if (true) then [0,0] }, "STRING"],
	["assertException", { if (false) then [0,0] }, "STRING"],
	["assertNil",       { if (false) exitWith {false} }, "STRING"],
	["assertTrue",      { if (true) exitWith {true} }, "STRING"],
	["assertTrue",      { if (true) then {true} else {false} }, "STRING"],
	["assertFalse",     { if (true) then {false} else {true} }, "STRING"]
]