[   ["assertException", { throw "test"; }],
    ["assertEqual",     { private "_val"; try { throw true; } catch { _val = _exception; }; _val }, true],
    ["assertEqual",     { private "_val"; try { throw "string"; } catch { _val = _exception; }; _val }, "string"],
    ["assertEqual",     { private "_val"; try { throw 1; } catch { _val = _exception; }; _val }, 1],
    ["assertEqual",     { private "_val"; try { throw [1,2,3]; } catch { _val = _exception; }; _val }, [1,2,3]],
    ["assertEqual",     { private "_val"; try { throw {1+1}; } catch { _val = _exception; }; _val }, {1+1}],
    ["assertEqual",     { private _exception = 1; try { throw "string"; } catch { private _val = _exception; }; _exception }, 1]
]