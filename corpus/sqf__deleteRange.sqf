[   ["assertEqual",     { private _arr = [0,1,2,3,4,5,6]; _arr deleteRange [0.6, 2.4]; _arr; }, [0,3,4,5,6]],
    ["assertEqual",     { private _arr = [0,1,2,3,4,5,6]; _arr deleteRange [2, 1];     _arr; }, [0,1,3,4,5,6]],
    ["assertEqual",     { private _arr = [0,1,2,3,4,5,6]; _arr deleteRange [1, 1];     _arr; }, [0,2,3,4,5,6]],
    ["assertEqual",     { private _arr = [0,1,2,3,4,5,6]; _arr deleteRange [-1, 1];    _arr; }, [0,1,2,3,4,5,6]],
    ["assertEqual",     { private _arr = [0,1,2,3,4,5,6]; _arr deleteRange [1, 10];    _arr; }, [0]]
]