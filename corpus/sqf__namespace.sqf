[   
    ["assertEqual",      { private _ns = customNamespace__ "custom"; _ns setVariable ["test", 0]; allVariables _ns }, ["test"]],
    ["assertEqual",      { private _ns = customNamespace__ "custom"; _ns setVariable ["test", 0]; with _ns do { allVariables currentNamespace } }, ["test"]],
    ["assertNil",        { missionNamespace getVariable "don'texist" }],
    ["assertNil",        { missionNamespace setVariable ["nstest", true] }],
    ["assertEqual",      { missionNamespace getVariable "nstest" }, true],
    ["assertEqual",      { missionNamespace getVariable ["nstest", false] }, true],
    ["assertEqual",      { missionNamespace getVariable ["don'texist", false] }, false],
    ["assertEqual",      { allVariables player }, []],
    ["assertNil",        { player getVariable "don'texist" }],
	["assertNil",        { player setVariable ["nstest", true] }],
    ["assertEqual",      { player getVariable "nstest" }, true],
    ["assertEqual",      { player getVariable ["nstest", false] }, true],
    ["assertEqual",      { player getVariable ["don'texist", false] }, false],
    ["assertException",  { player getVariable [false] }, []],
    ["assertException",  { player setVariable [false] }, []],
    ["assertException",  { player setVariable ["test"] }, []],
    ["assertException",  { player setVariable [true, "test"] }, []],
    ["assertException",  { player getVariable [true, "test"] }, []],
	["assertEqual",      { allVariables objNull }, []],
    ["assertNil",        { objNull getVariable "don'texist" }],
	["assertNil",        { objNull setVariable ["nstest", true] }],
    ["assertNil",        { objNull getVariable "nstest" }],
    ["assertNil",        { objNull getVariable ["nstest", false] }],
    ["assertNil",        { objNull getVariable ["don'texist", false] }],
    ["assertNil",        { objNull getVariable [false] }],
    ["assertNil",        { objNull setVariable [false] }],
    ["assertNil",        { objNull setVariable ["test"] }]








]
