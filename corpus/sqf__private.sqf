[   ["assertEqual", ["private STRING no override test", { private _arr = []; { private "_x"; _arr pushBack _x; } foreach [1,2,3]; _arr }], [1,2,3] ],   // private STRING
    ["assertEqual", ["private ARRAY no override test", { private _arr = []; { private ["_x"]; _arr pushBack _x; } foreach [1,2,3]; _arr }], [1,2,3] ],  // while CODE do CODE: condition false
    ["assertEqual", { private _private = 0; [] call { private "_private"; _private = 1; }; _private }, 0],
    ["assertIsNil", { [] call { private "_private"; _private = 1; }; _private }],
    ["assertEqual", { private _private = 0; [] call { private ["_private"]; _private = 1; }; _private }, 0],
    ["assertIsNil", { [] call { private ["_private"]; _private = 1; }; _private }]
]