[   ["assertEqual",     { ".,a,.b.,c,.d.,e,.f.," splitString ",." }, ["a","b","c","d", "e","f"]],
    ["assertEqual",     { "abc.,.,.,.,.,.def," splitString ",." }, ["abc","def"]],
    ["assertEqual",     { "abcdef," splitString ",." }, ["abcdef"]],
    ["assertEqual",     { ",." splitString ",." }, []],
    ["assertEqual",     { "" splitString ",." }, []],
    ["assertEqual",     { "abcdef" splitString "" }, ["a","b","c","d","e","f"]]
]