foo\
bar