private _addons = ["accessorys", "ai", "arrays", "common", "diagnostic", "disposable", "ee", "events", "hashes", "help", "jam", "jr", "keybinding", "main", "main_a3", "modules", "music", "network", "optics", "settings", "statemachine", "strings", "ui", "vectors", "versioning", "xeh"];
private _tests = ["arrays", "common", "diagnostic", "events", "hashes", "network", "strings", "vectors"]; // "jam" disabled, "main" is all tests
private _functions = [];

{
  private _addons = _x;
  private _addonPath = format ["\x\cba\addons\%1", _x];
  private _addonSqfFiles = allFiles__ [".sqf"];
  {
    private _addonFunctionPrefix = format ["%1/fnc_", _addons];
    if (_x find _addonFunctionPrefix > 0) then {
      private _splitStr = _x splitString "/";
      private _filename = _splitStr select (count _splitStr - 1);
      private _filePath = format ["%1\%2", _addonPath, _filename];

      if (not (_filePath in _functions)) then {
        private _functionName = "CBA_fnc_" + (_filename select [4, count _filename - 8]);
        missionNamespace setVariable [_functionName, compile preprocessFileLineNumbers _filePath];
        _functions pushBackUnique _filePath;
      };
    };
  } forEach _addonSqfFiles;
} forEach _addons;

{
  call compile preprocessFileLineNumbers  format ["\x\cba\addons\%1\test.sqf", _x];
} forEach _tests;

nil;
