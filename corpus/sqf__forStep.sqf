[   ["assertEqual",     { for "_i" from 1 to 10 do { _i }; }, 10],
    ["assertEqual",     { private _arr = []; for "_i" from 1 to 3 do { _arr pushBack _i; }; _arr }, [1, 2, 3]],
    ["assertEqual",     { private _arr = []; for "_i" from 0 to 5 step 2 do { _arr pushBack _i; }; _arr }, [0, 2, 4]],
    ["assertEqual",     { for "_i" from -1 to -10 step -1 do { _i }; }, -10],
    ["assertEqual",     { private _arr = []; for "_i" from (-1) to (-3) step -1 do { _arr pushBack _i; }; _arr }, [-1, -2, -3]],
    ["assertEqual",     { private _arr = []; for "_i" from 0 to (-5) step (-2) do { _arr pushBack _i; }; _arr }, [0, -2, -4]],
    ["assert",     		{ for "_i" from 0 to -1 do { assert false }; }],
    ["assert",     		{ for "_i" from -1 to 0 step -1 do { assert false }; }],
    ["assertEqual",
        [
            "Frame-Variables Cleared before each repetition.",
            {
                private _out = [];
                for "_i" from 0 to 2 do
                {
                    _i = _i + 1;
                    if !isNil "_something" then
                    {
                        _out pushBack _i;
                    };
                    _something = 1;
                    false
                };
                _out
            }
        ], []
    ],
    ["assert",
        [
            "Loop with step=0 loops endless.",
            {
                private _i = 0;
				for "_" from 0 to 1 step 0 do
				{
					_i = _i + 1;
					if (_i == 2) exitWith {};
				};
				assert (_i == 2);
            }
        ]
    ]
]