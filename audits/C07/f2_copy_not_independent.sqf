private _m = createHashMap; _m set ["a", [1]]; _m set ["h", createHashMap];
private _c = +_m;
(_c get "a") pushBack 2;
(_c get "h") set ["x", 1];
diag_log ["original after changing the copy", _m get "a", count (_m get "h"), _m isEqualTo createHashMapFromArray [["a",[1]],["h",createHashMap]]];
