private _mk = { [0, -0, 0 * -1, 1, 1.5, 16777216, 16777217, 1e39, -1e39, 1e-40, true, false, "", "a", "A", "ab", "0", "true", [], [0], [-0], [[]], [1,[2]], [1,[2,"a"]], [1,[2,"A"]], ["a"], [true], [{1}], {}, {1}, {-1}, {0}, {-0}, {a}, {A}, {"a"}, {1;2}, {[1]}, {{1}}, createHashMap, createHashMapFromArray [[1,2]], createHashMapFromArray [[1,2],["a",[1]]], createHashMapFromArray [["a",[1]],[1,2]], createHashMapFromArray [[[0],1]], createHashMapFromArray [[[-0],1]], [createHashMap], [createHashMapFromArray [[1,2]]], createHashMapFromArray [[createHashMap, 1]], createHashMapFromArray [[1, createHashMap]], createHashMapFromArray [[0,"x"]], createHashMapFromArray [[-0,"x"]], createHashMapFromArray [[0,0]], createHashMapFromArray [[0,-0]]] };
private _p = call _mk; private _q = call _mk; private _n = count _p; private _bad = [];
// reflexive on fresh copies, symmetric, transitive, hash-consistency through a map
for "_i" from 0 to _n - 1 do {
  private _a = _p select _i;
  if !(_a isEqualTo (_q select _i)) then { _bad pushBack ["refl", _i] };
  if !(_a isEqualTo _a) then { _bad pushBack ["refl-same", _i] };
  private _m = createHashMap; _m set [_a, "v"];
  for "_j" from 0 to _n - 1 do {
    private _b = _q select _j;
    private _e = _a isEqualTo _b;
    if !(_e isEqualTo (_b isEqualTo _a)) then { _bad pushBack ["sym", _i, _j] };
    if !(_e isEqualTo (_b in _m)) then { _bad pushBack ["hash/in", _i, _j, _e, _b in _m] };
    if !(_e isEqualTo (!isNil {_m get _b})) then { _bad pushBack ["hash/get", _i, _j] };
    if !(_e isEqualTo ([_a] isEqualTo [_b])) then { _bad pushBack ["arraywrap", _i, _j] };
    if !(_e isEqualTo !(_a isNotEqualTo _b)) then { _bad pushBack ["noteq", _i, _j] };
    if (_e) then { for "_k" from 0 to _n - 1 do { private _c = _p select _k; if ((_b isEqualTo _c) && !(_a isEqualTo _c)) then { _bad pushBack ["trans", _i, _j, _k] }; }; };
    if ((_a isEqualType _b) && {(_a isEqualType 0) || (_a isEqualType true)}) then { if !((_a == _b) isEqualTo _e) then { _bad pushBack ["==", _i, _j] } };
    if ((_a isEqualType "") && (_b isEqualType "")) then { if !((_a == _b) isEqualTo ((toLower _a) isEqualTo (toLower _b))) then { _bad pushBack ["==str", _i, _j] } };
  };
};
diag_log ["pool", _n, "bad", _bad];
