private _m = createHashMap; _m set [_m, 1]; diag_log [count _m];
