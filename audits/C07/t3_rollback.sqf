M = createHashMap; M set ["k",5];
N = createHashMap;
[] spawn { M set ["k", M]; };
[] spawn { N set ["k", [[N]]]; };
[] spawn { sleep 0.1; diag_log ["F1", count M, M get "k", keys M, "F2", count N, keys N]; };
