#!/bin/bash
# runs every line of the given .sqf file as its own sqfvm invocation
f="$1"; n=0
while IFS= read -r line; do
  n=$((n+1)); [ -z "$line" ] && continue
  printf '%s\n' "$line" > /tmp/audit_C07/.line.sqf
  out=$(timeout 60 /tmp/wt3_C07/_build/sqfvm -a --no-execute-print --suppress-welcome --no-work-print --input-sqf /tmp/audit_C07/.line.sqf 2>&1 | grep -v conda | grep -v '^$' | cut -c1-400 | head -6)
  echo "#$n rc=${PIPESTATUS[0]} $out"
done < "$f"
