diag_log ["Y1 arr set", call { private _m = createHashMap; private _a = [0]; _m set ["k", _a]; _a set [0, _m]; [_a isEqualTo _a, _m isEqualTo (+_m)] }];
diag_log ["Y2 arr append", call { private _m = createHashMap; private _a = [0]; _m set ["k", _a]; _a append [_m]; [count _a, _m isEqualTo (+_m)] }];
diag_log ["Y3 arr insert", call { private _m = createHashMap; private _a = [0]; _m set ["k", _a]; _a insert [0, [_m]]; [count _a, _m isEqualTo (+_m)] }];
diag_log ["Y4 arr pushBackUnique", call { private _m = createHashMap; private _a = [0]; _m set ["k", _a]; _a pushBackUnique _m; [count _a, _m isEqualTo (+_m)] }];
diag_log ["Y5 arr resize+set", call { private _m = createHashMap; private _a = []; _m set ["k", _a]; _a resize 2; _a set [1, [_m]]; [count _a, _m isEqualTo (+_m)] }];
diag_log ["Y6 key-hashmap gets map as value", call { private _m = createHashMap; private _k = createHashMap; _m set [_k, 1]; _k set ["x", _m]; [count _k, count _m] }];
diag_log ["Y7 fromArray cyc", call { private _a = [0]; private _m = createHashMapFromArray [["k", _a]]; _a set [0, _m]; [count _m, _m isEqualTo (+_m)] }];
