private _mk = { [0, -0, 1, 2, 1.5, 1e39, true, false, "", "a", "A", "ab", [], [0], [-0], [[]], [1,[2]], [1,[2,"a"]], [1,[2,"A"]], {}, {1}, {0}, {-0}, {a}, {A}, {"a"}, createHashMap, createHashMapFromArray [[1,2]], createHashMapFromArray [[1,2],["a",[1]]], [createHashMap]] };
private _bad = [];
private _refFind = { params ["_ref", "_k"]; private _r = -1; { if ((_x select 0) isEqualTo _k) exitWith { _r = _forEachIndex }; } forEach _ref; _r };
private _check = { params ["_m", "_ref", "_tag"];
  if (count _m != count _ref) then { _bad pushBack [_tag, "count", count _m, count _ref] };
  private _ks = keys _m;
  if (count _ks != count _ref) then { _bad pushBack [_tag, "keyscount"] };
  { private _k = _x select 0; if !(_k in _m) then { _bad pushBack [_tag, "missing", _k] }; if !((_m get _k) isEqualTo (_x select 1)) then { _bad pushBack [_tag, "value", _k, _m get _k, _x select 1] }; if (({_x isEqualTo _k} count _ks) != 1) then { _bad pushBack [_tag, "keys", _k] }; } forEach _ref;
  { private _k = _x; if ((_k in _m) isNotEqualTo (([_ref, _k] call _refFind) >= 0)) then { _bad pushBack [_tag, "in", _k] } } forEach (call _mk);
};
for "_round" from 1 to 20 do {
  private _m = createHashMap; private _ref = []; private _log = [];
  for "_step" from 1 to 150 do {
    private _pool = call _mk; private _k = _pool select floor random count _pool; private _op = floor random 10; private _v = _round * 1000 + _step;
    _log pushBack [_op, _k];
    switch (true) do {
      case (_op < 5): { _m set [_k, _v]; private _i = [_ref, _k] call _refFind; if (_i < 0) then { _ref pushBack [if (_k isEqualType []) then {+_k} else {_k}, _v] } else { (_ref select _i) set [1, _v] }; if (_k isEqualType []) then { _k pushBack 99; if (count _k > 1) then { _k set [0, "mut"] } }; };
      case (_op < 8): { private _i = [_ref, _k] call _refFind; private _r = _m deleteAt _k; if (_i < 0) then { if (!isNil "_r") then { _bad pushBack ["del-ghost", _k] } } else { if !(_r isEqualTo ((_ref select _i) select 1)) then { _bad pushBack ["del-val", _k] }; _ref deleteAt _i }; };
      case (_op == 8): { private _c = +_m; [_c, _ref, "copy"] call _check; _c set ["copyonly", 1]; _c deleteAt _k; if !(_m isEqualTo (+_m)) then { _bad pushBack ["copy-neq"] }; _m = +_m; };
      case (_op == 9): { private _pairs = []; { _pairs pushBack [_x select 0, _x select 1] } forEach _ref; private _c = createHashMapFromArray _pairs; if !(_c isEqualTo _m) then { _bad pushBack ["fromArray-neq"] }; if !(_m isEqualTo _c) then { _bad pushBack ["fromArray-neq2"] }; _m = _c; };
    };
    [_m, _ref, [_round, _step]] call _check;
    if (count _bad > 0) exitWith { diag_log ["FAIL", _bad, _log] };
  };
  if (count _bad > 0) exitWith {};
};
diag_log ["done", "bad", count _bad];
