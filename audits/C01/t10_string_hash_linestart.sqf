diag_log ([
"s" # 0]);
