// '.' is a registered binary operator (precedence 4, src/operators/ops_dummy_binary.cpp:940)
diag_log str ["a", assembly__ "_a . _b"];
diag_log str ["b", assembly__ "_a._b"];
diag_log str ["c", assembly__ "(1) . (2)"];
diag_log str ["d", assembly__ "_a . 5"];
diag_log str ["e", assembly__ "_a .5"];
diag_log str ["f", assembly__ "_a : _b"];
