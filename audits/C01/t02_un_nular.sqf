// dynamicSimulationEnabled is registered both as nular and as unary (not binary): token class OPERATOR_UN
diag_log str ["a", assembly__ "dynamicSimulationEnabled player"];
diag_log str ["b", assembly__ "dynamicSimulationEnabled"];
diag_log str ["c", assembly__ "[dynamicSimulationEnabled]"];
diag_log str ["d", assembly__ "dynamicSimulationEnabled && true"];
diag_log str ["e", assembly__ "(dynamicSimulationEnabled) isEqualTo false"];
diag_log str ["f", assembly__ "_x = dynamicSimulationEnabled;"];
