diag_log ([1] apply {_y = _x});
diag_log ([1,2] select {_y = _x; true});
diag_log ([1,2] findIf {_y = _x});
