_d = fromAssembly__ ["callunary str"];
_r = [10, call _d, 20];
diag_log _r;
_e = fromAssembly__ ["makearray 1"];
_r = [10, 11 call _e, 20];
diag_log _r;
diag_log (count (11 call _e));
