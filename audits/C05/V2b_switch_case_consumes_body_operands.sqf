_c = fromAssembly__ ["makearray 4"];
_r = [10, switch (1) do { [7, 8, case 1: _c] }, 20];
diag_log _r;
