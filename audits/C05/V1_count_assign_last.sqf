diag_log ({_y = _x} count [1,2]);
