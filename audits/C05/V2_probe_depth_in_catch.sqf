// leftovers visible to a catch block / after the statement
_r = [10, try { [1, 2, call { [3,4, throw "x"] }] } catch { [vs__, vsf__] }, 20];
diag_log _r;
diag_log ["after", vs__];
_r = [10, { [1, 2, call { [3,4, 1 + "a"] }] } except__ { [vs__, vsf__] }, 20];
diag_log _r;
diag_log ["after", vs__];
_r = [10, { [1, 2, call { [3,4, throw "y"] }] } except__ { [vs__, vsf__] }, 20];
diag_log _r;
diag_log ["after", vs__];
