diag_log (isNil {1; _a = 5});
