diag_log ([1,2,3] apply {_y = _x});
