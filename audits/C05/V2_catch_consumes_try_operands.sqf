_c = fromAssembly__ ["makearray 4"];
_r = [10, try { [1, 2, call { [3, 4, throw "x"] }] } catch _c, 20];
diag_log _r;
