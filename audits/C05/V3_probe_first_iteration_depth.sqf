// stack depth seen at the first statement of each iteration of every loop kind
_log = [];
for "_i" from 0 to 3 do { _log pushBack vs__; [1,2,3]; _i };
diag_log ["for", _log]; _log = [];
_i = 0; while {_i < 4} do { _log pushBack vs__; _i = _i + 1; [1,2,3] };
diag_log ["while", _log]; _log = [];
{ _log pushBack vs__; [1,2,3] } forEach [1,2,3,4];
diag_log ["forEach", _log]; _log = [];
{ _log pushBack vs__; [1,2,3]; true } count [1,2,3,4];
diag_log ["count", _log]; _log = [];
[1,2,3,4] apply { _log pushBack vs__; [1,2,3]; true };
diag_log ["apply", _log]; _log = [];
[1,2,3,4] select { _log pushBack vs__; [1,2,3]; true };
diag_log ["select", _log]; _log = [];
[1,2,3,4] findIf { _log pushBack vs__; [1,2,3]; false };
diag_log ["findIf", _log]; _log = [];
diag_log ["root", vs__];
