execVM "/t13_exec_self.sqf"; execVM "/t13_exec_self.sqf";
