// C++ driver using sqf::runtime::runtime directly (links against libsqfvm.so, which contains all classes).
// usage: cppdrv <max_runtime_ms> <max_loop_iterations or -1 for default> <step>...
//   "load:<code>"     parse code, create a new (unscheduled) context for it
//   "loadsched:<code>" the same, but the context can suspend (scheduled)
//   "sleep:<ms>"      host sleeps
//   "start" | "assembly_step" | "line_step" | "leave_scope" | "abort"   runtime.execute(action)
//   "eval:<expr>"     runtime.evaluate_expression(expr, success, false)
#include "runtime/logging.h"
#include "runtime/runtime.h"
#include "parser/config/config_parser.hpp"
#include "parser/sqf/sqf_parser.hpp"
#include "parser/preprocessor/default.h"
#include "operators/ops.h"
#include "fileio/default.h"
#include <chrono>
#include <thread>
#include <iostream>
#include <string>

class mylogger : public Logger
{
    virtual void log(const LogMessageBase& message) override
    {
        auto s = message.formatMessage();
        if (s.size() > 300) s = s.substr(0, 300) + "...";
        std::cout << "    [log lvl=" << (int)message.getLevel() << "] " << s << std::endl;
    }
public:
    mylogger() : Logger() {}
};
static const char* resname(sqf::runtime::runtime::result r)
{
    using R = sqf::runtime::runtime::result;
    switch (r) { case R::invalid: return "invalid"; case R::empty: return "empty"; case R::ok: return "ok"; case R::action_error: return "action_error"; case R::runtime_error: return "runtime_error"; }
    return "?";
}
static const char* statename(sqf::runtime::runtime::state s)
{
    using S = sqf::runtime::runtime::state;
    switch (s) { case S::empty: return "empty"; case S::halted: return "halted"; case S::running: return "running"; case S::halted_error: return "halted_error"; case S::evaluating: return "evaluating"; }
    return "?";
}
int main(int argc, char** argv)
{
    mylogger logger;
    sqf::runtime::runtime::runtime_conf conf;
    conf.max_runtime = std::chrono::milliseconds(atol(argv[1]));
    long maxloop = atol(argv[2]);
    if (maxloop >= 0) conf.max_loop_iterations_in_unscheduled = (size_t)maxloop;
    conf.print_context_work_to_log_on_exit = true;
    sqf::runtime::runtime rt(logger, conf);
    rt.fileio(std::make_unique<sqf::fileio::impl_default>(logger));
    rt.parser_config(std::make_unique<sqf::parser::config::parser>(logger));
    rt.parser_preprocessor(std::make_unique<sqf::parser::preprocessor::impl_default>(logger));
    rt.parser_sqf(std::make_unique<sqf::parser::sqf::parser>(logger));
    sqf::operators::ops(rt);
    std::cout << "runtime created: max_runtime=" << conf.max_runtime.count() << "ms max_loop=" << conf.max_loop_iterations_in_unscheduled << std::endl;
    for (int i = 3; i < argc; i++)
    {
        std::string a = argv[i];
        auto t0 = std::chrono::steady_clock::now();
        if (a.rfind("sleep:", 0) == 0)
        {
            std::this_thread::sleep_for(std::chrono::milliseconds(atoi(a.c_str() + 6)));
            std::cout << a << std::endl;
            continue;
        }
        else if (a.rfind("load:", 0) == 0 || a.rfind("loadsched:", 0) == 0)
        {
            bool sched = a.rfind("loadsched:", 0) == 0;
            std::string code = a.substr(a.find(':') + 1);
            auto set = rt.parser_sqf().parse(rt, code, { std::string("drv.sqf"), {} });
            if (!set.has_value()) { std::cout << "parse failed" << std::endl; continue; }
            auto ctx = rt.context_create().lock();
            ctx->push_frame({ rt.default_value_scope(), *set });
            if (sched) { ctx->can_suspend(true); ctx->weak_error_handling(true); }
            std::cout << a << " -> loaded" << std::endl;
            continue;
        }
        else if (a.rfind("eval:", 0) == 0)
        {
            bool success = false;
            auto v = rt.evaluate_expression(a.substr(5), success, false);
            auto t1 = std::chrono::steady_clock::now();
            std::cout << a << " -> success=" << success << " value=" << v.to_string_sqf()
                << " state=" << statename(rt.runtime_state())
                << " contexts=" << (rt.context_end() - rt.context_begin())
                << " wall=" << std::chrono::duration_cast<std::chrono::milliseconds>(t1 - t0).count() << "ms" << std::endl;
            continue;
        }
        using A = sqf::runtime::runtime::action;
        A act = A::invalid;
        if (a == "start") act = A::start; else if (a == "assembly_step") act = A::assembly_step; else if (a == "line_step") act = A::line_step;
        else if (a == "leave_scope") act = A::leave_scope; else if (a == "abort") act = A::abort; else if (a == "stop") act = A::stop;
        auto r = rt.execute(act);
        auto t1 = std::chrono::steady_clock::now();
        std::cout << a << " -> result=" << resname(r) << " state=" << statename(rt.runtime_state())
            << " contexts=" << (rt.context_end() - rt.context_begin())
            << " wall=" << std::chrono::duration_cast<std::chrono::milliseconds>(t1 - t0).count() << "ms" << std::endl;
    }
    return 0;
}
