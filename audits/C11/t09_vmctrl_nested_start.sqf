[] spawn { while {true} do { sleep 0.4; vmctrl__ "reset_run_atomic"; vmctrl__ "start"; }; };
