f = { call f }; call f;
