#!/bin/bash
# usage: run.sh <max-runtime-ms> <hard-timeout-s> file.sqf [extra args...]
# prints wall time, exit code and (truncated) output
MR=$1; HT=$2; F=$3; shift 3
cd /tmp/audit_C11
S=$(date +%s.%N)
timeout -s KILL $HT /tmp/wt3_C11/_build/sqfvm --automated --no-execute-print --suppress-welcome --max-runtime $MR --input-sqf $F "$@" > /tmp/audit_C11/out/$F.out 2>&1
RC=$?
E=$(date +%s.%N)
echo "=== $F  max-runtime=$MR  rc=$RC  wall=$(echo "$E - $S" | bc)s"
head -c 1500 /tmp/audit_C11/out/$F.out | head -30
echo "... [$(wc -l < /tmp/audit_C11/out/$F.out) lines]"
tail -3 /tmp/audit_C11/out/$F.out | cut -c1-300
