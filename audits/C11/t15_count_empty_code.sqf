private _a = []; _a resize 3000000; diag_log "start count"; {} count _a; diag_log "done";
