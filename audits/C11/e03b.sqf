__EVAL(for "_i" from 0 to 1 step 0 do {1})
