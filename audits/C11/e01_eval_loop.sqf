diag_log "before";
private _x = __EVAL(for "_i" from 0 to 1 step 0 do {1});
diag_log "after";
[] spawn { while {true} do {} };
