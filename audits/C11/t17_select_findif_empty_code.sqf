[] spawn { private _a = []; _a resize 2000000; diag_log "start"; _a findIf {}; diag_log "done"; };
