f = { [] spawn g; [] spawn g; }; g = { [] spawn f; [] spawn f; }; [] spawn f;
