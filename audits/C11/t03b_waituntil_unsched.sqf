waitUntil {false};
