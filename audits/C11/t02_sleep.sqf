[] spawn { sleep 100; diag_log "woke" };
