[] spawn { waitUntil {false} };
