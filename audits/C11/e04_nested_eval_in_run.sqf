[] spawn { private _s = preprocessFile "/e02a_nested_eval.sqf"; diag_log ["never", _s]; };
