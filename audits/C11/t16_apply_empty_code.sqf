[] spawn { private _a = []; _a resize 3000000; diag_log "start apply"; _a apply {}; diag_log "done"; };
