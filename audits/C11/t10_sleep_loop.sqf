[] spawn { while {true} do { sleep 0.01 } };
[] spawn { while {true} do { sleep 5 } };
