[] spawn { private _a = []; while {true} do { _a = [_a] }; };
