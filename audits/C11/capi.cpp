// Driver for the C API (libsqfvm.so).
// usage: capi <max_runtime_seconds> <step>...
//   step "sleep:<ms>"   -> host sleeps
//   step "s:<code>"     -> sqfvm_call(..., 's', code)
//   step "p:<code>"     -> sqfvm_call(..., 'p', code)  (preprocess only)
// prints, for each call, the return code, sqfvm_status afterwards and the wall time of the call
#include <cstdint>
#include <cstdio>
#include <cstring>
#include <cstdlib>
#include <chrono>
#include <thread>
#include <string>
#include "export/sqfvm.h"

static void cb(void* user, void* call, int32_t sev, const char* msg, uint32_t len)
{
    std::string s(msg, len);
    if (s.size() > 300) s = s.substr(0, 300) + "...";
    printf("    [log sev=%d] %s%s", sev, s.c_str(), (!s.empty() && s.back() == '\n') ? "" : "\n");
}
int main(int argc, char** argv)
{
    float limit = (float)atof(argv[1]);
    void* vm = sqfvm_create_instance(nullptr, cb, limit);
    printf("created instance, max_runtime_seconds=%g\n", limit);
    for (int i = 2; i < argc; i++)
    {
        std::string a = argv[i];
        if (a.rfind("sleep:", 0) == 0)
        {
            int ms = atoi(a.c_str() + 6);
            printf("host sleeps %d ms\n", ms);
            std::this_thread::sleep_for(std::chrono::milliseconds(ms));
            continue;
        }
        char type = a[0];
        std::string code = a.substr(2);
        auto t0 = std::chrono::steady_clock::now();
        int32_t rc = sqfvm_call(vm, nullptr, type, code.c_str(), (uint32_t)code.size());
        auto t1 = std::chrono::steady_clock::now();
        printf("call '%c' `%s` -> rc=%d status=%d wall=%lld ms\n", type, code.c_str(), rc, sqfvm_status(vm),
            (long long)std::chrono::duration_cast<std::chrono::milliseconds>(t1 - t0).count());
        fflush(stdout);
    }
    sqfvm_destroy_instance(vm);
    return 0;
}
