__EVAL(1)
