h = [] spawn { while {true} do {} }; [] spawn { while {true} do { terminate h; h = [] spawn { while {true} do {} } } };
