diag_log __EVAL(preprocessFile "/e02b_inner.sqf");
