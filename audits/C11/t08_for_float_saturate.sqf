for "_i" from 16777216 to 16777300 do { 1 };
