private _a = [1]; { _a pushBack 1 } forEach _a;
