for "_i" from 1 to 2000 do { [] spawn { sleep 1000 } };
