[] spawn { private _s = preprocessFile "/e03b.sqf"; diag_log ["never", _s]; };
