[] spawn { while {true} do {} };
