_l = [];
_i = 0;
while { _i = _i + 1; if (_i < 3) exitWith { true }; false } do { _l pushBack _i };
diag_log _l;
