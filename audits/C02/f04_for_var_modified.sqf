_l = [];
for "_i" from 0 to 2 do { _l pushBack _i; _i = 10 };
diag_log _l;
_m = [];
for "_i" from 0 to 4 do { _m pushBack _i; if (_i == 1) then { _i = _i + 1 } };
diag_log _m;
