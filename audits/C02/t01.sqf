diag_log ([1,2,3] apply { if (_x == 2) then { 7 } });
diag_log (switch "A" do { case "a": {1}; default {2} });
diag_log ([1,2,3] findIf { _x == 2 });
diag_log ({ _x > 1 } count [1,2,3]);
diag_log ([1,2,3] select { _x > 1 });
