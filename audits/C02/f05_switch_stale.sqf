_s = switch 1;
_a = _s do { case 1: {10} };
_b = _s do { case 2: {20}; default {0} };
diag_log [_a, _b];
