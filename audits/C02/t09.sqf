_h = [] spawn {
diag_log ["S1 exp 20000", call { _i = 0; while {_i < 20000} do { _i = _i + 1 }; _i }];
diag_log ["S2 exp [[1,2],9]", call { _l = []; _r = { _l pushBack _x; if (_x == 2) exitWith {9}; 0 } forEach [1,2,3]; [_l,_r] }];
diag_log ["S3 exp x5", try { throw "x"; 1 } catch { _exception + "5" }];
diag_log ["S4 exp 5", call { scopeName "a"; call { 5 breakOut "a"; 1 }; 2 }];
diag_log ["S5 exp 12", switch 1 do { case 1; case 2: {12}; default {0} }];
diag_log ["S6 exp [nil,nil] apply empty", [1,2] apply {}];
diag_log ["S7 uncaught throw then continue?", call { throw "boom"; "continued" }];
diag_log "S8 after";
};
