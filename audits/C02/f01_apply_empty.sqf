diag_log ([1,2] apply {});
diag_log "after";
