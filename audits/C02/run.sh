#!/bin/sh
# usage: run.sh file.sqf
/tmp/wt3_C02/_build/sqfvm -a --suppress-welcome --no-execute-print --no-spawn-player --no-load-executable-dir -m 10000 --input-sqf "$1" 2>&1 | grep -v conda
