_l = [];
_i = 0;
while {_i < 3} do { scopeName "w"; _i = _i + 1; _l pushBack _i; };
diag_log ["exp [[1,2,3],3]", [_l, _i]];
_m = [];
{ scopeName "fe"; _m pushBack _x } forEach [1,2,3];
diag_log ["exp [1,2,3]", _m];
