diag_log ([1,2] apply { _a = _x });
diag_log "after";
