diag_log ({ _a = _x } count [1,2]);
diag_log "after";
