missionNamespace setVariable ["_zz", 1];
diag_log ["isNil _zz, expect true", isNil "_zz"];
diag_log ["value of _zz is nil, expect true", isNil { _zz }];
with uiNamespace do { diag_log ["in uiNamespace, expect true", isNil "_zz"]; };
// reverse direction: a frame-local name without underscore answers for a global
for "gname" from 0 to 0 do { diag_log ["isNil gname (global never set), expect true", isNil "gname"]; };
