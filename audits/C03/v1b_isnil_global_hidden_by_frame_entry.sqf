private "gq"; gq = 1;
diag_log ["gq is 1, isNil gq expect false", gq, isNil "gq"];
for "gname" from 0 to 0 do { diag_log ["global gname never set, isNil expect true", isNil "gname"]; };
