[1] call {
    call { _this = 2 };
    diag_log ["after unary call, _this expect 2", _this];
    if (true) then { _this = 3 };
    diag_log ["after if-then, _this expect 3", _this];
};
