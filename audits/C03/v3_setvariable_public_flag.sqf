missionNamespace setVariable ["pubv", 1, true];
diag_log ["expect 1", missionNamespace getVariable "pubv"];
