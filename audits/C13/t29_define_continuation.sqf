#define M(a) a; \
  a; \
  a
M(1)
line5
