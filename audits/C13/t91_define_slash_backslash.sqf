#define D(a,b) a/b
#define P \a\b\c.sqf
#define Q "\a\b"
D(1,2) P Q
