#define A 1
"a""A""b" A "" A """" A
