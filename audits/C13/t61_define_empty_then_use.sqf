#define E
[E] E(1) xEx
