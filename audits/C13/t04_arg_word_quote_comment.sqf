#define F(x) [x]
F(a"//") tail
next line
