#define F(x) <x>
F(a"s" /*c*/ b) t
