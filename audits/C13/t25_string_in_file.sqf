#define A 1
"A // /* #define" A "*/" A
