#define F(x) <x>
F(1)"s" F"s"
