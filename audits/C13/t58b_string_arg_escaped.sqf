#define A 1
#define F(x) <x>
F("a"",A") F("""") F(""",""")
