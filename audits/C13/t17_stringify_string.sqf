#define S(x) #x
S("q") S(a b) S(a,) 
