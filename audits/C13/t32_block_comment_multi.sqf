/*
#define A 1
"
*/ A
/* x */ #define B 2
B
