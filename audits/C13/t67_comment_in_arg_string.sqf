#define F(x) <x>
F("/*") F("//") F("*/")
next
