#define A 1
A
#undef A
A
#define A 2
A
