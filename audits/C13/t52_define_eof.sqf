a e
#else