#define G(a,b) <a|b>
G(1,
2)
after
