#ifndef NOPE
yes
#else
no
#endif
#define NOPE
#ifndef NOPE
no2
#else
yes2
#endif
