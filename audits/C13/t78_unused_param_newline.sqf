#define U(x) <>
U(1
2) tail
next
