#define A 1
#define F(x) <x>
F((A)) F([A,A]) F({A;A}) F(A) F( A ) F(A+A)
