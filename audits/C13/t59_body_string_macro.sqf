#define A 1
#define B "A" A 'A'
B
