#define F(x) <x>
#define G(a,b) {a|b}
F(G(,)) F(F()) G(F(),F())
