a \
b
c
