#define A (1+2)
#define B(x)(x)
#define C [B(3)]
A B(2) C
