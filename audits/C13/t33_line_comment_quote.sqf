#define A 1
// it is "quoted
A
