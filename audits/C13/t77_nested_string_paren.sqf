#define F(x) <x>
F(F(")")) F(F("(")) F(F(","))
