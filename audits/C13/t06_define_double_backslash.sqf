#define P "a\\b"
P
"a\\b"
