#define A 1
#define F(x) <x>
F("A,)") F("(", A) 
