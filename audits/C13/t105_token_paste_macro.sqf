#define AB 5
#define CAT(a,b) a##b
CAT(A,B)
