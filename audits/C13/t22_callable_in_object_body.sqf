#define F(x) <x>
#define B F(1)
B B
