#define C(a,b) a##b
#define S(a) #a
#define Q(a,b) a##_##b
#define R(a) pre_##a##_post
C(x,y) S(x) Q(x,y) R(m) C(1,2)
