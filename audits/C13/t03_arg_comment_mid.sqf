#define F(x) [x]
F(a/*c*/b) tail
F(a//c
) tail2
