#define P a\b\\c
P
