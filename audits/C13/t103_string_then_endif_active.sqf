#define A 1
#ifdef A
"keep" #endif
still_inside
#endif
after
