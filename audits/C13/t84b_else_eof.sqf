#ifdef NOPE
hidden
#else