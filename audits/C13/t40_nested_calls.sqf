#define F(x) <x>
#define G(a,b) {a|b}
F(F(F(1))) F(G(1,2)) G(F(1),F(2)) G(G(1,2),G(3,4))
