#ifdef NOPE
#foo
#endif
ok
