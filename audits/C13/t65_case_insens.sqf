#DEFINE A 1
#IfDef A
A
#EndIf
