#define A 1
  "a" #define Z 2
Z A
