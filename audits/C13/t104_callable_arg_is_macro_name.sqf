#define F(x) <x>
#define CALL(f) f(1)
CALL(F)
