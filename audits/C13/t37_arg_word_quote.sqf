#define A 1
#define F(x) <x>
F(a"b") F(A"x") F("x"A) F("x"a)
