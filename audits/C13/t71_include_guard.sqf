#include "t71_g.h"
#include "t71_g.h"
V
