#define x 9
#define G(y) <y>
#define F(x) G(x)
F(1)
