#define A 1
"s" A