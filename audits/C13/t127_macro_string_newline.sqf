#define A 1
A"x
y"A
