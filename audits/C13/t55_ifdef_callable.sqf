#define F(x) x
#ifdef F
yes
#endif
