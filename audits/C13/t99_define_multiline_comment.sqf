#define A 1 /* start
end */ 2
A
