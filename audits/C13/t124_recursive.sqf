#define A A
A
