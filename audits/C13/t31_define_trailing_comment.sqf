#define A 5 // comment
#define B 6 /* c */
#define C /* c */ 7
[A,B,C]
