#define F(x) <x>
F(x /*c*/) t
next
