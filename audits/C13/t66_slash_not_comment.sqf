a / b /c/ d "/*" e */ f
