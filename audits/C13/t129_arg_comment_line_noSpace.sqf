#define G(a,b) {a|b}
G(a,b//c
) t
