#define A 1
#ifdef A
A
#endif