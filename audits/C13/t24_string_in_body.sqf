#define F(x) "x" x "#x" x
F(1)
