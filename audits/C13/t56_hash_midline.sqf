#define A 1
x = arr # A; y #define
