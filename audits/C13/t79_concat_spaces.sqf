#define C(a,b) a ## b
C(x,y)
