#define A 1
"x"A A"x"A A "x" A
A/*c*/"s"
