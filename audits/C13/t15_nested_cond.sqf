#define X
#ifdef X
in_x
#ifdef Y
in_xy
#else
in_x_noty
#endif
#else
not_x
#ifdef X
not_x_x
#else
not_x_notx
#endif
#endif
after
