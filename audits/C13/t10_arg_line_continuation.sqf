#define F(x) [x]
F(a\
b) tail
