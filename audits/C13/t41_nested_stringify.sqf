#define Q(x) #x
#define QQ(x) Q(x)
#define A 1
QQ(a b) QQ(A) Q(A)
