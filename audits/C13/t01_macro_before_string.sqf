#define A 1
x = A"s";
