#define A 1
#define B 2
A/**/B
A/* c */ B
