#define A 1
#define A 2
A
