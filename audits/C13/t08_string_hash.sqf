a
"abc" # 2
b
