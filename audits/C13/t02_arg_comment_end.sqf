#define F(x) [x]
F(a/*c*/) tail
