#define S "ab\
cd"
S
