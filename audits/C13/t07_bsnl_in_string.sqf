x = "ab\
cd";
