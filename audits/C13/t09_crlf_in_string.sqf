x = "a
b";
y
