#define A 1
'"' A '"'
A
