x = "
#define Z 1
";
Z
