ab "cd"
