#define S(x) # x
#define T(x) #x#x
S(a) T(b)
