#define F(x) <x>
F