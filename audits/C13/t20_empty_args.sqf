#define F(x) <x>
#define G(a,b) <a|b>
#define Z() z
F() G(,) G(a,) G(,b) Z()
