#define F(x) <x>
F(/*c*/a) t1
F(/*c*/) t2
next
