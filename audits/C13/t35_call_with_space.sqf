#define F(x) <x>
F (1) F
