#define F(x) <x>
F(1/2) F(a/b) F(a / b) F(a/ b)
