#ifdef X
#define INC 1
#else
#define INC 2
#endif
#ifdef NOPE
leak
#endif
from_inc
