#define A 1
#define F(x) <x>
F(A(2)) F(A (2))
