#define A 1 // c
#ifdef A // c
yes
#else // not A
no
#endif // A
#undef A // c
A
#define E // only comment
[E]
#ifndef A/* c */
yes2
#endif//x
