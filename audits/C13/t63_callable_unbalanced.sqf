#define F(x) <x>
F(a]) t
F([a) t
