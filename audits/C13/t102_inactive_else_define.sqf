#define A 1
#ifdef A
#define B 2
#else
#define B 3
#undef A
#endif
A B
