#define F(x) <x>
#define H(y) F(y"//")
H(1) t
next
