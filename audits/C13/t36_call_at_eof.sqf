#define F(x) <x>
F(1)