#define G(a,b) <a|b>
G(a/*c*/,b) G(a, /*c*/ b) G(a /*c*/, b)
