#define X
#include "t47_inc.h"
INC X2
