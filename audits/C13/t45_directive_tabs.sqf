	#define	A	5
  #define B  6  
A B
