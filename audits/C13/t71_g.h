#ifndef GUARD
#define GUARD
#define V 7
body
#endif
