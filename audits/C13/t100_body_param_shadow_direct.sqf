#define x 9
#define F(x) <x>
F(1) x
