#define A 1
#define B A"x"A
B
