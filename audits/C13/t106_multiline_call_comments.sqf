#define G(a,b) {a|b}
G(1, // first
  2) // second
G(1 // first
, 2)
end
