#define A 1
A
#define B A
B
#undef A
B
