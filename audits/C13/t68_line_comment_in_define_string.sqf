#define U "http://x" // c
U
