#define A 1
AB A_ _A A1 1A A.B A-B (A) [A] A;A
