#define M(a) a \
 b
#ifdef M
M(1)
#endif
end
