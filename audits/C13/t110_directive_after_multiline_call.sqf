#define G(a,b) {a|b}
G(1,
2)
#define Z 3
Z
