#ifdef NOPE
"x" #else
leak1
#endif
ok
