#ifdef NOPE
/*
#endif
*/
"
#endif
"
// #endif
hidden
#endif
shown
