#ifdef N1
a
#ifdef N2
b
#ifndef N3
c
#else
d
#endif
#else
e
#ifndef N3
f
#endif
#endif
#else
g
#ifndef N3
h
#ifdef N4
i
#else
j
#endif
#endif
#endif
k
