#ifdef NOPE
#define Z 1
#undef Q
#include "nonexist.h"
#endif
Z
