#define A 1
#define F(x) <x xA Ax A_x A x_ _x>
F(AB) F(BA) F(A_) F(_A) F(A B) F(B A)
