#define A 1
#define F(x) <x>
F(A/*c*/) t
F(A//c
) t
