#define S "a /* b */ c // d"
S
#define T(x) "x /* b */" x
T(1)
