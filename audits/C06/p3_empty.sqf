// only a comment
;;
