toFixed 2;
private _v = 0.125; private _a = [0.001, [123456]]; private _c = {x + 0.001};
diag_log [str _v, (call compile str _v) isEqualTo _v];
diag_log [str _a, (call compile str _a) isEqualTo _a];
diag_log [str _c, (call compile str _c) isEqualTo _c];
toFixed 0;
diag_log [str 0.5, str 1.5, str [0.4], (call compile str 0.4) isEqualTo 0.4];
toFixed -1;
diag_log [str _v, (call compile str _v) isEqualTo _v];
