private _a = compile loadFile "p4_misc.sqf"; private _b = compile loadFile "p4_misc.pretty.out";
diag_log ["SAME-INSTRUCTIONS", _a isEqualTo _b];
diag_log str _a; diag_log str _b;
