import random, sys
random.seed(int(sys.argv[1]))
BIN = {1:["or","||"],2:["&&","and"],3:["!=","<","<=","==",">",">=",">>"],4:[":","select","call","then","do","foreach","isequalto","set","pushback","in","count","apply","getvariable"],5:["else"],6:["+","-","max","min"],7:["%","*","/","atan2","mod"],9:["#","^"]}
UN = ["-","+","!","count","not","call","str","if","private","abs","floor","selectrandom","isnil","compile","+","-","-"]
NUL = ["true","false","player","nil","pi","time","objnull","west"]
def leaf():
    r=random.random()
    if r<0.25: return random.choice(["a","_b","Foo_1","x"])
    if r<0.5: return random.choice(["0","1","2.5",".5","1e3","1e-3","0x1F","$ff","-1","-.25","123456","1e10","-0"])
    if r<0.6: return random.choice(['"s"',"'t'",'"q""q"',"'a''b'",'""',"''",'"a\nb"'])
    if r<0.75: return random.choice(NUL)
    if r<0.85: return "[" + ", ".join(expr(2) for _ in range(random.randint(0,3))) + "]"
    return "{" + random.choice(["",";",";;"]) + random.choice(["; ",", ",";;"]).join(stmt(2) for _ in range(random.randint(0,3))) + random.choice(["",";"]) + "}"
def stmt(d):
    r=random.random()
    if r<0.15: return random.choice(["a","_b","player"])+" = "+expr(d)
    if r<0.25: return "private _p = "+expr(d)
    return expr(d)
def expr(d):
    if d<=0 or random.random()<0.2: return leaf()
    r=random.random()
    if r<0.3:
        return random.choice(UN)+" ("+expr(d-1)+")"
    p=random.choice(list(BIN))
    return "("+expr(d-1)+") "+random.choice(BIN[p])+" ("+expr(d-1)+")"
n=int(sys.argv[2])
mode=sys.argv[3]
if mode=="str":
    print('private _chk = { params ["_v","_i"]; private _s = str _v; private _w = call compile _s; if (isNil "_w") then { diag_log ["NOCOMPILE", _i, _s] } else { if !(_w isEqualTo _v && {(str _w) isEqualTo _s}) then { diag_log ["MISMATCH", _i, _s, str _w] } } };')
    for i in range(n):
        print("[{ %s }, %d] call _chk;" % ("; ".join(stmt(4) for _ in range(random.randint(1,2))), i))
    print('diag_log "done";')
else:
    for i in range(n):
        print(stmt(4)+";")
