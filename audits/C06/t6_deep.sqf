{
  private _n = _x;
  private _a = [1];
  for "_i" from 1 to _n do { _a = [_a] };
  private _s = str _a;
  private _w = call compile _s;
  diag_log ["depth", _n, count _s, if (isNil "_w") then {"COMPILE FAILED"} else {_w isEqualTo _a}];
} forEach [100, 1000, 3000, 5000, 9990, 10010, 20000];
