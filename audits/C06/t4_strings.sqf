private _bad = 0;
for "_i" from 1 to 2000 do {
  private _s = toString [_i];
  private _t = "x" + _s + "y" + _s;
  { private _v = _x; private _w = call compile str _v; if !(_w isEqualTo _v) then { _bad = _bad + 1; diag_log ["MISMATCH", _i, str _v, str _w] };
    private _c = compile str _v; private _cs = str _c; private _c2 = call compile _cs; if !(_c2 isEqualTo _c) then { diag_log ["MISMATCH-CODE", _i, _cs] };
  } forEach [_s, _t, [_s, [_t]], _s + _s, _s + """" + _s];
};
diag_log ["done", _bad];
private _q = toString [34];
{ private _v = _x; private _w = call compile str _v; diag_log [count _v, _w isEqualTo _v, str _v]; } forEach [_q, _q+_q, _q+_q+_q, "'" + _q, _q + "'", "''", "'", toString [10,13,9,34,10], "//", "/*", "*/ #define x", "\", "\n", "%1", "{{", "}}"];
