diag_log str [1, -1, 0.5, "a""b", true, {1 + 2 * 3}, [1,[2]]];
private _rt = { params ["_v"]; private _s = str _v; private _w = call compile _s; diag_log [_s, _w isEqualTo _v] };
[{(1 + 2) * 3}] call _rt;
[{1 - (2 - 3)}] call _rt;
[{- (1 + 2)}] call _rt;
[{- - 5}] call _rt;
[{- +5}] call _rt;
