#!/bin/bash
# usage: pp_check.sh file.sqf  -> pretty prints, then compares instruction sequences of input and output
S=/tmp/wt3_C06/_build/sqfvm
f=$1
$S -a --no-execute-print --suppress-welcome --no-work-print --pretty-print $f 2>/dev/null | grep -v conda > ${f%.sqf}.pretty.out
cat > /tmp/audit_C06/_cmp.sqf <<EOS
private _a = compile loadFile "$f"; private _b = compile loadFile "${f%.sqf}.pretty.out";
diag_log ["SAME-INSTRUCTIONS", _a isEqualTo _b];
diag_log str _a; diag_log str _b;
EOS
$S -a --no-execute-print --suppress-welcome --no-work-print -v "/tmp/audit_C06|" --input-sqf /tmp/audit_C06/_cmp.sqf 2>&1 | grep -v conda
