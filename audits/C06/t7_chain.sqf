{
private _n = _x;
private _s = "1";
for "_i" from 1 to _n do { _s = _s + " + 1" };
private _c = compile _s;
diag_log ["compiled", _n];
private _t = str _c;
diag_log ["str ok", count _t];
private _w = call compile _t;
diag_log ["roundtrip", _w isEqualTo _c];
} forEach [1000, 10000, 30000, 60000];
