private _x; {;}; {;a;;b;}; x = {}; TRUE; Private _Y = FALSE; [1,2] SELECT 0; -(-(1)); a = -(b); "multi
line" + 'q';