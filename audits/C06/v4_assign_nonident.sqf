private _c = {5 = 3; "abc" = 4; true = 1};
private _s = str _c;
diag_log _s;
private _w = call compile _s;
diag_log (if (isNil "_w") then {"str output does not compile"} else {_w isEqualTo _c});
