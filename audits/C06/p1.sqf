a = (1 + 2) * 3;
b = 1 - (2 - 3);
c = -(1 + 2);
d = - -5;
e = !(x && y) || z;
if (x) then { y = 1; } else { y = 2; };
if !x then {1};
private _f = [1, "a""b", 'c''d', {x}, $FF, 0x1f, .5, 1e3];
private "_g"; private ["_h"];
5 = 3;
"abc" = 4;
x select (y select 1);
count (x + y);
count x + y;
{ _x = 1 } forEach [1,2];
[] call {};
a # 1 # 2; a # (1 # 2);
/* comment */ hint "/* not a comment */"; // line
-x ^ 2; -(x ^ 2);
