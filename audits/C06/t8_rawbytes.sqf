private _src = loadFile "t8_rawbytes.txt";
private _v = call compile _src;
private _w = call compile str _v;
diag_log [count _src, count _v, _w isEqualTo _v, (str _v) isEqualTo _src, count toArray _v];
private _c = compile _src; diag_log [(call compile str _c) isEqualTo _c];
