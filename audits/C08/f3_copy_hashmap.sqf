private _inner = [1];
private _h = createHashMap; _h set ["k", _inner];
private _c = +_h;
_inner pushBack 2;
diag_log ["+hashmap: original k", _h get "k", "copy k", _c get "k"];
private _arr = [_h];
private _d = +_arr;
_h set ["later", 5];
diag_log ["+array holding a hashmap: original", _arr, "copy", _d];
