private _kh = createHashMap;
private _m = createHashMap;
_m set [[_kh], "v"];
diag_log ["before", _m get [_kh], count _m];
_kh set ["x", 1];
diag_log ["after", _m get [_kh], count _m, keys _m];
_m set [[_kh], "w"];
diag_log ["after second set with equal key", count _m, keys _m];
