// DAG with shared children: 2^n paths, n+1 distinct arrays
private _a = [0];
for "_i" from 1 to 26 do { _a = [_a, _a]; };
private _t = diag_tickTime;
_a pushBack 1;
diag_log ["pushBack on depth-26 DAG took", diag_tickTime - _t];
private _h = createHashMap;
_t = diag_tickTime;
_h set ["k", _a];
diag_log ["hashmap set of depth-26 DAG took", diag_tickTime - _t];
