private _a = [0,1,2,3,4,5]; _a deleteRange [2,2]; diag_log ["[2,2]", _a];
private _b = [0,1,2,3,4,5]; _b deleteRange [0,1]; diag_log ["[0,1]", _b];
private _c = [0,1,2,3,4,5]; _c deleteRange [1,0]; diag_log ["[1,0]", _c];
private _d = [0,1,2,3,4,5]; _d deleteRange [0,-1]; diag_log ["[0,-1]", _d];
private _e = [0,1,2,3,4,5]; _e deleteRange [3,2]; diag_log ["[3,2]", _e];
