diag_log "A";
{
  _r = preprocess__ "x = __EVAL(diag_log 'in-eval'; [] select 9; diag_log 'eval-after-error'; 3);";
  diag_log ["after-preprocess__", _r];
} except__ { diag_log "HANDLER" };
diag_log "end";
