diag_log "A";
_r = assembly__ "1 + + ((";
diag_log ["after-assembly", isNil "_r"];
