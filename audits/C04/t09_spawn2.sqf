{ _h = [] spawn { sleep 0.01; diag_log "sp"; [] select 8; diag_log "u-sp" }; sleep 0.05; diag_log "main-after-sleep"; } except__ { diag_log ["MAIN-HANDLER-WRONG", str _exception select [0,50]] };
diag_log "main-end";
