configparse__ "class CfgA { class B {}; class C {}; };";
diag_log "A";
_r = "((( true" configClasses (configFile >> "CfgA");
diag_log ["after-configClasses", isNil "_r"];
_r = configProperties [configFile >> "CfgA", "((( true"];
diag_log ["after-configProperties", isNil "_r"];
