#ifdef A
#else
#else
foo
