diag_log "A";
_h = execVM "child_err.sqf";
{ waitUntil { scriptDone _h }; diag_log "main-after-wait"; } except__ { diag_log "MAIN-HANDLER" };
diag_log "main-end";
