diag_log "main1";
_h = [] spawn { diag_log "sp1"; { sleep 0.01; [] select 9; diag_log "u1" } except__ { diag_log "spH" }; diag_log "sp-after"; sleep 0.01; [] select 8; diag_log "u-sp-2" };
{ waitUntil { scriptDone _h }; diag_log "main-after-wait" } except__ { diag_log "MAIN-HANDLER-WRONG" };
sleep 0.05;
diag_log "main-end";
