diag_log "execvm-child"; [] select 9; diag_log "child-unreached";
