diag_log "A";
{
_r = preprocessFile "bad_pp.sqf";
diag_log ["after-preprocessFile", _r];
_r = preprocessFileLineNumbers "bad_pp.sqf";
diag_log ["after-preprocessFileLineNumbers", _r];
_h = execVM "bad_pp.sqf";
diag_log ["after-execVM-badpp", _h];
_h = execVM "bad_syntax.sqf";
diag_log ["after-execVM-badsyntax", _h];
} except__ { diag_log "HANDLER" };
diag_log "end";
