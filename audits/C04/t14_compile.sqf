diag_log "A";
_c = compile "1 + + ((";
diag_log "after-compile";
