diag_log "A";
_r = preprocess__ "#include";
diag_log ["after-preprocess", _r];
_r = preprocess__ ("#if" + toString [10] + "x");
diag_log ["after-preprocess2", _r];
