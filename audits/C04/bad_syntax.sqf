diag_log "in-bad-syntax"; 1 + + ((
