diag_log "s2"; sleep 0.01; diag_log "s2-end"
