_v = __EVAL({ [] select 9; 1 } except__ { 2 });
diag_log ["v", _v];
