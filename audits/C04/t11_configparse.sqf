diag_log "A";
configparse__ "class X { a = ; ";
diag_log "after-configparse";
