diag_log "main-start";
_v = __EVAL(diag_log "e1"; [] select 5; diag_log "e2-after-error"; 7);
diag_log ["main-after", _v];
