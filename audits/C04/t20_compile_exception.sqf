{ _c = compile "1 + + (("; diag_log "u" } except__ { diag_log ["H", str _exception select [0, 80]] };
configparse__ "class CfgA { class B {}; class C {}; };";
{ _r = "[] select 9; true" configClasses (configFile >> "CfgA"); diag_log ["u-cc", _r] } except__ { diag_log "H-cc" };
{ _r = "5" configClasses (configFile >> "CfgA"); diag_log ["u-cc2", _r] } except__ { diag_log "H-cc2" };
diag_log "end";
