// driver: runs a sequence of sqfvm_call's on ONE instance; each argv is "<type>:<code>" ; prints log + rc
#include <cstdint>
#include <cstdio>
#include <cstring>
#include <cstdlib>
#include "sqfvm.h"
static void cb(void*, void* call, int32_t sev, const char* m, uint32_t len) {
    printf("   [call %ld sev %d] %.*s\n", (long)(intptr_t)call, sev, (int)len, m);
}
int main(int argc, char** argv) {
    float maxrt = 0; int start = 1;
    if (argc > 1 && !strncmp(argv[1], "-m", 2)) { maxrt = atof(argv[1] + 2); start = 2; }
    void* vm = sqfvm_create_instance(nullptr, cb, maxrt);
    for (int i = start; i < argc; i++) {
        char type = argv[i][0]; const char* code = argv[i] + 2;
        printf("CALL %d type=%c code=<%s>\n", i - start + 1, type, code);
        int32_t rc = (type == 'C') ? sqfvm_load_config(vm, code, strlen(code)) : sqfvm_call(vm, (void*)(intptr_t)(i - start + 1), type, code, strlen(code));
        printf("  -> rc=%d status=%d\n", rc, sqfvm_status(vm));
    }
    sqfvm_destroy_instance(vm);
}
