diag_log "A";
diag_log (1 + "x");
diag_log "B";
