diag_log "start";
{ [] select 9 } except__ { diag_log "handler"; [] select 8; diag_log "u-after-handler-error" };
diag_log "u-after-construct";
