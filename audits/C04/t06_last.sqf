{ [] select 9 } except__ { diag_log "H-last" }; 
_r = call { { [] select 9 } except__ { 5 } };
diag_log ["r", _r];
_r2 = [1,2] apply { { [] select 9 } except__ { _x * 2 } };
diag_log ["r2", _r2];
[] select 9
