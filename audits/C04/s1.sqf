diag_log "s1"; [] select 9; diag_log "s1-u"
