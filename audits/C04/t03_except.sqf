diag_log "A";
{ diag_log "in"; [] select 5; diag_log "skipped?"; } except__ { diag_log ["handler", _exception]; };
diag_log "after";
