for "_i" from 1 to 200 do { okcnt = _i; };
diag_log ["file_ok finished", okcnt];
