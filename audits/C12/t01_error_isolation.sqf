[] spawn { diag_log "A1"; sleep 0.05; diag_log "A2"; };
[] spawn { diag_log "B1"; private _x = 1 + "x"; diag_log "B2"; };
[] spawn { diag_log "C1"; sleep 0.05; diag_log "C2"; };
