hA = [] spawn { sleep 10; diag_log "A must not log"; };
[] spawn { diag_log "B1"; sleep 0.05; diag_log "B2"; };
[] spawn { terminate hA; terminate hA; diag_log "C after 2nd terminate"; };
