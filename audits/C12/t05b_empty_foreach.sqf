big = []; big resize 9999999;
[] spawn { diag_log ["A start", diag_tickTime]; {} forEach big; diag_log ["A done", diag_tickTime]; };
[] spawn { diag_log ["B1", diag_tickTime]; diag_log ["B2", diag_tickTime]; };
