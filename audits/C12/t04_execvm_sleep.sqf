h = [] execVM "/tmp/audit_C12/t04_child.sqf";
[] spawn { diag_log ["spawn canSuspend", canSuspend]; };
