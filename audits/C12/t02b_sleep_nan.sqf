[] spawn { diag_log "before"; sleep (sqrt -1); diag_log "woke-nan"; };
