diag_log "file_err start";
private _y = [] select 5;
