diag_log ["execVM canSuspend", canSuspend];
diag_log "child before sleep";
sleep 0.05;
diag_log "child after sleep";
