[] spawn { diag_log "B1"; sleep 0.05; diag_log "B2"; };
[] spawn { waitUntil { 1 }; diag_log "after waitUntil"; };
