[] spawn { private _v = 1.23456; diag_log ["A before", str _v]; sleep 0.02; diag_log ["A after", str _v]; };
[] spawn { sleep 0.005; toFixed 1; sleep 0.05; };
