[] spawn { diag_log "before"; sleep 1e10; diag_log "woke-after-1e10-seconds"; };
