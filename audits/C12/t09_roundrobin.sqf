trace = [];
[] spawn { for "_i" from 1 to 400 do { trace pushBack "A"; }; };
[] spawn { for "_i" from 1 to 90 do { trace pushBack "B"; }; };
[] spawn { for "_i" from 1 to 400 do { trace pushBack "C"; if (_i == 100) then { [] spawn { for "_j" from 1 to 200 do { trace pushBack "E"; }; }; }; }; };
[] spawn { for "_i" from 1 to 300 do { trace pushBack "D"; if (_i == 60) then { sleep 0.001; }; }; };
[] spawn { sleep 0.5; diag_log (trace joinString ""); };
