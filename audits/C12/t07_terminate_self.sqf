[] spawn { diag_log "S1"; terminate _thisScript; diag_log "S2 same slice (allowed)"; sleep 0.01; diag_log "S3 after scheduling point (violation)"; };
[] spawn { diag_log "T1"; sleep 0.05; diag_log "T2"; };
