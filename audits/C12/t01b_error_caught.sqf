[] spawn { diag_log "A1"; sleep 0.05; diag_log "A2"; };
[] spawn { diag_log "B1"; try { private _x = 1 + "x"; } catch { diag_log "B caught"; }; diag_log "B2"; };
