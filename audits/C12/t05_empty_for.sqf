[] spawn { diag_log ["A start", diag_tickTime]; for "_i" from 0 to 30000000 do {}; diag_log ["A done", diag_tickTime]; };
[] spawn { diag_log ["B1", diag_tickTime]; diag_log ["B2", diag_tickTime]; };
