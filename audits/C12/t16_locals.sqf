[] spawn { private _a = 1; _b = 2; sleep 0.02; diag_log ["A sees", _a, _b, isNil "_c"]; };
[] spawn { private _c = 3; diag_log ["B sees _a,_b nil:", isNil "_a", isNil "_b"]; sleep 0.05; };
