hA = [] spawn { diag_log "A done quickly"; };
[] spawn { diag_log "B1"; sleep 0.05; diag_log "B2"; };
[] spawn { sleep 0.01; diag_log ["C: scriptDone hA", scriptDone hA]; terminate hA; diag_log "C after terminate"; };
