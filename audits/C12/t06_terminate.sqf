hA = [] spawn { for "_i" from 0 to 1000000 do { cnt = _i; }; diag_log "A finished (must not happen)"; };
[] spawn { sleep 0.01; private _c0 = cnt; terminate hA; private _c1 = cnt; sleep 0.05; private _c2 = cnt; sleep 0.05; diag_log ["cnt at terminate", _c0, _c1, "after", _c2, cnt, "done", scriptDone hA]; };
