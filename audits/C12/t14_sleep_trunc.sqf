[] spawn { private _t0 = diag_tickTime; for "_i" from 1 to 1000 do { sleep 0.0009; }; diag_log ["1000 x sleep 0.0009 (>= 0.9 s expected) took", diag_tickTime - _t0]; };
