[] spawn { private _t0 = diag_tickTime; sleep 0.2; diag_log ["slept0.2", diag_tickTime - _t0]; };
[] spawn { private _t0 = diag_tickTime; sleep 0.05; diag_log ["slept0.05", diag_tickTime - _t0]; };
[] spawn { private _t0 = diag_tickTime; sleep 0; diag_log ["slept0", diag_tickTime - _t0]; };
[] spawn { private _t0 = diag_tickTime; sleep -1; diag_log ["slept-1", diag_tickTime - _t0]; };
[] spawn { private _t0 = diag_tickTime; uiSleep 0.0004; diag_log ["slept0.0004", diag_tickTime - _t0]; };
