class Base { class Inner { v = 1; }; };
class Derived : Base { class Inner : Inner { w = 2; }; class Inner2 : Inner { z = 3; }; };
