_a = getArray (configFile >> "A" >> "arr");
_a pushBack 99;
diag_log ["A.arr after pushBack on returned copy", getArray (configFile >> "A" >> "arr")];
_b = getArray (configFile >> "B" >> "arr");
(_b select 2) pushBack 77;
diag_log ["A.arr after nested pushBack via B", getArray (configFile >> "A" >> "arr")];
diag_log ["B.arr", getArray (configFile >> "B" >> "arr")];
