class V {
  n1 = 5; n2 = -5; n3 = 1.5; n4 = 1e3; n5 = 0x10; n6 = .5; n7 = -0.25; n8 = +3; n9 = 16777216; n10 = 1.; n11 = 1E-2; n12 = -0x10; n13 = $FF; n14=0xFFFFFFFFFFFFFFFFFF;
  s1 = "abc"; s2 = "a""b"; s3 = 'q'; s4 = ""; s5 = abc; s6 = hello world; s7 = "x;y"; s8 = 'it''s'; s9 = "a'b";
  a1[] = {}; a2[] = {1}; a3[] = {1,"s",{2,3},{}}; a4[] = {{{1}}}; a5[] = {abc, a b, -1, 0x10, "x,y"}; a6[] = {{},{{}}};
};
