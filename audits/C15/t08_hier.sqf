configparse__ "class A { class B { class C { x = 1; }; }; }; class D : A {};";
diag_log ["hier C", configHierarchy (configFile >> "A" >> "B" >> "C")];
diag_log ["hier x", configHierarchy (configFile >> "A" >> "B" >> "C" >> "x")];
diag_log ["hier D>>B (inherited)", configHierarchy (configFile >> "D" >> "B")];
diag_log ["hier root", configHierarchy configFile];
diag_log ["types", (configHierarchy (configFile >> "A" >> "B")) apply {typeName _x}];
diag_log ["inheritsFrom D", inheritsFrom (configFile >> "D"), configName inheritsFrom (configFile >> "D"), "A", inheritsFrom (configFile >> "A"), isNull inheritsFrom (configFile >> "A")];
diag_log ["inheritsFrom A>>B", inheritsFrom (configFile >> "A" >> "B")];
diag_log ["select oob", (configFile >> "A") select 5, (configFile >> "A") select -1];
