configparse__ "class A { x = 1; y = 2; }; class B : A { y = 3; }; class C : B { }; class D : C { x = 4; };";
diag_log ["nearest", getNumber (configFile >> "D" >> "x"), getNumber (configFile >> "D" >> "y"), getNumber (configFile >> "C" >> "x"), getNumber (configFile >> "C" >> "y"), count (configFile >> "C"), isClass (configFile >> "C")];
configparse__ "class A { delete x; delete y; };";
diag_log ["A emptied", count (configFile >> "A"), isClass (configFile >> "A"), isNull (configFile >> "C" >> "x"), getNumber (configFile >> "C" >> "y")];
configparse__ "class W { delete A; class Z : A { }; };";
diag_log ["base hidden by delete in enclosing", inheritsFrom (configFile >> "W" >> "Z")];
configparse__ "class Q { f = 1; class R : f {}; };";
diag_log ["base is a field", inheritsFrom (configFile >> "Q" >> "R")];
configparse__ "class N1 { v = 1e39; w = 1e-50; u = 4294967296; h = 0xFFFFFFFF; t = 00012; };";
diag_log ["nums", getNumber (configFile >> "N1" >> "v"), getNumber (configFile >> "N1" >> "w"), getNumber (configFile >> "N1" >> "u"), getNumber (configFile >> "N1" >> "h"), getNumber (configFile >> "N1" >> "t")];
configparse__ "class S1 { a = ""x"" ""y""; b = 1 2; c = a""b; d = 'x""y'; e = ""tab	tab""; f = ""multi
line""; };";
{ diag_log [configName _x, isText _x, getText _x] } forEach [configFile >> "S1" >> "a", configFile >> "S1" >> "b", configFile >> "S1" >> "c", configFile >> "S1" >> "d", configFile >> "S1" >> "e", configFile >> "S1" >> "f"];
diag_log ["props", configProperties [configFile >> "D", "true", true] apply {configName _x}];
diag_log ["props A (all deleted)", configProperties [configFile >> "A", "true", true]];
diag_log ["classes root", "true" configClasses configFile apply {configName _x}];
