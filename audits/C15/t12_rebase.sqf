configparse__ "class A { x = 1; }; class C { z = 3; }; class B : A { y = 2; };";
configparse__ "class B : C { };";
diag_log ["rebased to C", inheritsFrom (configFile >> "B"), isNull (configFile >> "B" >> "x"), getNumber (configFile >> "B" >> "z")];
configparse__ "class B : Nope { };";
diag_log ["re-open with unknown base", inheritsFrom (configFile >> "B"), isNull (configFile >> "B" >> "z")];
configparse__ "class B { };";
diag_log ["re-open without base", inheritsFrom (configFile >> "B")];
