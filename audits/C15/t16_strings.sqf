{
  configparse__ format ["class S%1 { v = %2; };", _forEachIndex, _x];
  _c = configFile >> format ["S%1", _forEachIndex] >> "v";
  diag_log [_x, "->", isNull _c, isText _c, isNumber _c, getText _c];
} forEach ["""x"" ""y""", "1 2", "a""b", "'x""y'", """tab	tab""", """multi
line""", """a;b""", """a}b""", "a{b", "a/b", "a//b", """a//b""", "a\b\c.paa", "\a\b", "x:y", "a=b", "1.", "-0x10", "true", "5 + 3", "(1)", "$STR_x", "@foo", "a#b"];
