diag_log ["inheritsFrom Derived/Inner2", inheritsFrom (configFile >> "Derived" >> "Inner2")];
diag_log ["Derived/Inner2/v", getNumber (configFile >> "Derived" >> "Inner2" >> "v"), isNull (configFile >> "Derived" >> "Inner2" >> "v")];
diag_log ["Derived>>Inner exists", isClass (configFile >> "Derived" >> "Inner")];
