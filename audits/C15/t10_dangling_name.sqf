configparse__ "class Alpha { x = 1; };";
_c = configFile >> "Alpha";
_x = _c >> "x";
diag_log ["before", configName _c, configName _x, str _c];
_s = "";
for "_i" from 0 to 2000 do { _s = _s + format ["class K%1 { v = %1; };", _i]; };
configparse__ _s;
diag_log ["after", configName _c, configName _x, str _c, configName (configFile >> "Alpha")];
diag_log ["value still", getNumber _x, getNumber (_c >> "x")];
