configparse__ "class A { x = -.; };";
diag_log ["survived", isText (configFile >> "A" >> "x"), getText (configFile >> "A" >> "x")];
