class A { arr[] = {1,2,{3,4}}; };
class B : A { arr[] += {5}; };
