configparse__ "class CfgX { Value = 1; class Sub {}; }; class Y : cfgx {};";
diag_log ["exact", getNumber (configFile >> "CfgX" >> "Value"), "lower", isNull (configFile >> "cfgx"), isNull (configFile >> "CfgX" >> "value")];
diag_log ["Y base", inheritsFrom (configFile >> "Y")];
configparse__ "class cfgx { value = 2; };";
diag_log ["count root", count configFile, "CfgX>>Value", getNumber (configFile >> "CfgX" >> "Value")];
