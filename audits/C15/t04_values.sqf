_v = configFile >> "V";
for "_i" from 0 to (count _v - 1) do {
  _e = _v select _i;
  diag_log [configName _e, isNumber _e, isText _e, isArray _e, isClass _e, getNumber _e, getText _e, getArray _e];
};
