configparse__ "class A { x = 1; }; class Outer { class A; class B : A { y = 2; }; };";
diag_log ["Outer>>B>>x", getNumber (configFile >> "Outer" >> "B" >> "x"), isNull (configFile >> "Outer" >> "B" >> "x")];
diag_log ["count Outer", count (configFile >> "Outer"), configHierarchy inheritsFrom (configFile >> "Outer" >> "B")];
configparse__ "class F; class G : F { }; class F { z = 3; };";
diag_log ["G>>z (fwd decl at root then defined)", getNumber (configFile >> "G" >> "z")];
