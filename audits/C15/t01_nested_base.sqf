diag_log ["inheritsFrom Derived/Inner", inheritsFrom (configFile >> "Derived" >> "Inner")];
diag_log ["Derived/Inner/v", getNumber (configFile >> "Derived" >> "Inner" >> "v")];
diag_log ["Derived/Inner/w", getNumber (configFile >> "Derived" >> "Inner" >> "w")];
