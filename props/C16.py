"""C16 - virtual file system resolves deterministically and never leaves mapped roots."""
import os, re
from hypothesis import strategies as st
from engine.driver import Result, viol

ID = "C16"
LEVEL = "exploration"
HANG_IS_VIOLATION = True     # every generated case terminates under the model: no reply (twice, then 3x confirmation) is a violation
ENGINE = "E-hyp"
TECHNIQUE = "property-based testing against a VFS model: generated mapping sets over a scratch directory tree with inside and outside files carrying unique tokens; requests (canonical, mutated, traversal attempts) through loadFile, preprocessFile(LineNumbers), execVM and #include; strong oracle for canonical requests, containment oracle for all"
RULE = ("cases = 1-4 mappings (nested virtual prefixes, two roots on one prefix, the root prefix) over a fixed scratch tree (two inside roots with sub directories, one "
        "outside directory, one file above the roots), one request path (canonical virtual path, relative path, .. at every position, //, backslashes, mixed, trailing "
        "separator, absolute physical path inside/outside a root, escape through a mapped root, a file reached through the VFS that itself includes x, ../x or d/x by relative path with same-named files in the mapped root and its sub directories) and one access operation (loadFile, preprocessFile, "
        "preprocessFileLineNumbers, execVM, #include from a file at depth <=3); non-trivial = the request is not the canonical spelling or >=2 mappings overlap; "
        "distinct = SHA-1 of the case")
LEVEL_TEXT = ("Exploration with a reference resolver: for requests without '..' the returned content must be that of the model's file (or both not found); "
              "for every request the content must come from a file inside a mapped root, an 'outside' token or the file above the roots is a violation; execVM must "
              "run the file's code; the same request twice gives the same answer.")
LEVEL_NOTE = ("Trusted: the Python resolver in this file (deepest mapped prefix, first root containing the file), unique tokens per file, the runner. "
              "Not asserted: symlinks; for requests with '..' only containment.")
ASSUMPTIONS = ["the scratch tree is private to the worker", "requests whose .. climbs above the virtual root or out of a mapped physical directory are only checked for containment"]
SIZES = {"quick": dict(budget_s=45, batch=100), "thorough": dict(budget_s=600, batch=200)}
FLOORS = {"nontrivial": 0.5, "kind_traverse": 0.2, "relinc_decided": 0.03}

TREE = {
    "inside1/f1.sqf": "I1F1", "inside1/only1.sqf": "I1ONLY", "inside1/sub/f2.sqf": "I1F2", "inside1/sub/deep/f3.sqf": "I1F3", "inside1/sub/deep/inc.hpp": "I1INC",
    "inside2/f1.sqf": "I2F1", "inside2/g.sqf": "I2G", "inside2/sub/f2.sqf": "I2F2", "inside2/c/h.sqf": "I2H",
    "inside1/common.hpp": "I1COMMON", "inside1/sub/common.hpp": "I1SUBCOMMON", "inside1/sub/deep/common.hpp": "I1DEEPCOMMON", "inside2/common.hpp": "I2COMMON",
    "inside2/sub/common.hpp": "I2SUBCOMMON", "outside/common.hpp": "OUTCOMMON",
    "inside1/b/x.sqf": "I1BX",
    "outside/secret.sqf": "OUTSECRET", "outside/f1.sqf": "OUTF1", "top_secret.sqf": "TOPSECRET",
}
MAPPINGS = [("inside1", "/a"), ("inside2", "/a"), ("inside1/sub", "/a/sub"), ("inside2", "/b/c"), ("inside1", "/"), ("inside2/c", "/a/sub/deep"), ("inside1/sub/deep", "/x")]


# files that include by relative path: (own token, [relative include paths])
RELINC = {
    "inside1/rel.sqf": ("I1REL", ["common.hpp"]),
    "inside1/sub/rel.sqf": ("I1SUBREL", ["common.hpp"]),
    "inside1/sub/up.sqf": ("I1SUBUP", ["../common.hpp"]),
    "inside1/sub/deep/rel.sqf": ("I1DEEPREL", ["common.hpp"]),
    "inside1/sub/deep/up.sqf": ("I1DEEPUP", ["../common.hpp"]),
    "inside2/sub/rel.sqf": ("I2SUBREL", ["common.hpp"]),
    "inside1/sub/down.sqf": ("I1SUBDOWN", ["deep/common.hpp"]),
}


def make_tree(base):
    for rel, tok in TREE.items():
        p = os.path.join(base, rel)
        os.makedirs(os.path.dirname(p), exist_ok=True)
        with open(p, "w") as f:
            # (one file sleeps first: a script started with execVM is a scheduled script)
            f.write(('sleep 0.001;\n' if rel == "inside1/only1.sqf" else "") + 'diag_log "TOK_%s";\n' % tok)
    for rel, (tok, incs) in RELINC.items():
        p = os.path.join(base, rel)
        os.makedirs(os.path.dirname(p), exist_ok=True)
        with open(p, "w") as f:
            f.write('diag_log "TOK_%s";\n' % tok + "".join('#include "%s"\n' % i for i in incs))


class Vfs:
    def __init__(self, base, maps):
        self.base = base
        self.root = {"children": {}, "phys": []}
        self.roots = []
        for phys, virt in maps:
            node = self.root
            for seg in [s for s in virt.split("/") if s]:
                node = node["children"].setdefault(seg, {"children": {}, "phys": []})
            node["phys"].append(os.path.join(base, phys))
            self.roots.append(os.path.join(base, phys))

    def resolve(self, segs):
        # lexical normalisation first: `..` takes back the segment in front of it, one that climbs above the root makes the request invalid
        norm = []
        for sg in segs:
            if sg == "..":
                if not norm:
                    return None
                norm.pop()
            elif sg not in ("", "."):
                norm.append(sg)
        segs = norm
        path = [self.root]
        i = 0
        while i < len(segs) and segs[i] in path[-1]["children"]:
            path.append(path[-1]["children"][segs[i]])
            i += 1
        # the deepest node on the way that is actually mapped decides (nodes in between only lead to deeper mappings)
        while len(path) > 1 and not path[-1]["phys"]:
            path.pop()
            i -= 1
        node = path[-1]
        rest = segs[i:]
        for r in node["phys"]:
            p = os.path.join(r, *rest) if rest else r
            if os.path.isfile(p):
                return p
        return None

    def inside(self, path):
        rp = os.path.realpath(path)
        return any(rp.startswith(os.path.realpath(r) + os.sep) for r in self.roots)


@st.composite
def _cases(draw):
    nm = draw(st.integers(1, 4))
    maps = draw(st.lists(st.sampled_from(MAPPINGS), min_size=nm, max_size=nm, unique=True))
    kind = draw(st.sampled_from(["traverse", "traverse", "traverse", "traverse", "canonical", "canonical", "mutate", "mutate", "physical", "physical", "relative", "relinc", "relinc", "dotdot", "dotdot"]))
    # canonical virtual targets: every file below every mapped prefix plus some misses
    virt_dirs = sorted({v for _p, v in maps})
    vdir = draw(st.sampled_from(virt_dirs))
    leaf = draw(st.sampled_from(["f1.sqf", "only1.sqf", "g.sqf", "sub/f2.sqf", "sub/deep/f3.sqf", "c/h.sqf", "h.sqf", "f3.sqf", "nope.sqf", "deep/f3.sqf", "f2.sqf", "b/x.sqf", "b/x.sqf"]))
    segs = [s for s in vdir.split("/") if s] + leaf.split("/")
    req = "/" + "/".join(segs)
    labs = ["kind_" + kind]
    if kind == "mutate":
        how = draw(st.sampled_from(["backslash", "double", "mixed", "nolead", "dot", "trail"]))
        if how == "backslash":
            req = req.replace("/", "\\")
        elif how == "double":
            i = draw(st.integers(0, len(segs) - 1))
            req = "/" + "/".join(segs[:i]) + ("//" if i else "/") + "/".join(segs[i:])
        elif how == "mixed":
            req = "".join(("\\" if (c == "/" and draw(st.booleans())) else c) for c in req)
        elif how == "nolead":
            req = req[1:]
        elif how == "dot":
            i = draw(st.integers(0, len(segs) - 1))
            req = "/" + "/".join(segs[:i] + ["."] + segs[i:])
        elif how == "trail":
            req = req + "/"
        labs.append("mut_" + how)
    elif kind == "dotdot":
        # `..` that stays inside the virtual tree: "<dir>/<x>/../<leaf>", "<dir>/<x>/<y>/../../<leaf>", "<dir>/<leafdir>/../<leafdir>/<file>"
        dsegs = [s_ for s_ in vdir.split("/") if s_]
        lsegs = leaf.split("/")
        form = draw(st.sampled_from(["detour", "detour2", "redo"]))
        x = draw(st.sampled_from(["sub", "deep", "c", "zz", "b"]))
        if form == "detour":
            segs = dsegs + [x, ".."] + lsegs
        elif form == "detour2":
            segs = dsegs + [x, draw(st.sampled_from(["deep", "q"])), "..", ".."] + lsegs
        else:
            segs = dsegs + lsegs[:-1] + ([lsegs[-2], ".."] if len(lsegs) > 1 else [x, ".."]) + lsegs[-1:]
        req = "/" + "/".join(segs)
        if draw(st.integers(0, 3)) == 0:
            req = req.replace("/", "\\")
    elif kind == "traverse":
        target = draw(st.sampled_from(["outside/secret.sqf", "top_secret.sqf", "outside/f1.sqf", "inside2/g.sqf", "inside1/f1.sqf"]))
        ups = draw(st.integers(1, 6))
        pos = draw(st.integers(0, len(segs) - 1))
        form = draw(st.sampled_from(["prefix", "middle", "afterroot", "relativeup"]))
        tsegs = target.split("/")
        if form == "prefix":
            req = "/" + "/".join([".."] * ups + tsegs)
        elif form == "middle":
            req = "/" + "/".join(segs[:pos] + [".."] * ups + tsegs)
        elif form == "afterroot":
            req = "/" + "/".join([s for s in vdir.split("/") if s] + [".."] * ups + tsegs)
        else:
            req = "/".join([".."] * ups + tsegs)
        if draw(st.booleans()):
            req = req.replace("/", "\\")
    elif kind == "physical":
        rel = draw(st.sampled_from(sorted(TREE)))
        req = "@PHYS@/" + rel            # replaced by the scratch base at run time
        if draw(st.integers(0, 3)) == 0:
            req = "@PHYS@/inside1/../" + rel
    elif kind == "relative":
        req = "/".join(segs[-draw(st.integers(1, len(segs))):])
    elif kind == "relinc":
        # a file reached through the VFS that includes by relative path
        phys, virt = draw(st.sampled_from(maps))
        cands = sorted(r for r in RELINC if r.startswith(phys + "/"))
        if cands:
            rel = draw(st.sampled_from(cands))
            req = virt.rstrip("/") + "/" + rel[len(phys) + 1:]
        else:
            req = virt.rstrip("/") + "/rel.sqf"
        op = draw(st.sampled_from(["preprocessFile", "preprocessFileLineNumbers", "execVM", "include"]))
        inc_from = draw(st.sampled_from(["inside1/f1.sqf", "inside2/c/h.sqf"]))
        return dict(maps=[list(m) for m in maps], req=req, op=op, inc_from=inc_from, kind=kind, labs=labs)
    op = draw(st.sampled_from(["loadFile", "preprocessFile", "preprocessFileLineNumbers", "execVM", "include", "include"]))
    inc_from = draw(st.sampled_from(["inside1/f1.sqf", "inside1/sub/f2.sqf", "inside1/sub/deep/f3.sqf", "inside2/c/h.sqf"]))
    return dict(maps=[list(m) for m in maps], req=req, op=op, inc_from=inc_from, kind=kind, labs=labs)


def strategy(env):
    return _cases()


def _tokens(text):
    return set(re.findall(r"TOK_([A-Z0-9]+)", text or ""))


def check(case, env):
    base = os.path.join(env.scratch_dir(), "c16")
    if not env.cache.get("tree"):
        make_tree(base)
        env.cache["tree"] = True
    r = env.runner()
    maps = [(p, v) for p, v in case["maps"]]
    r.new(vm=0, ops="full", mappings=[[os.path.join(base, p), v] for p, v in maps])
    vfs = Vfs(base, maps)
    req = case["req"].replace("@PHYS@", base)
    op = case["op"]
    labs = set(case["labs"]) | {"op_" + op}
    virt_set = [v for _p, v in maps]
    overlap = len(set(virt_set)) < len(virt_set) or any(a != b and (b + "/").startswith(a.rstrip("/") + "/") for a in virt_set for b in virt_set)
    if overlap:
        labs.add("overlapping_mappings")
    nontrivial = case["kind"] != "canonical" or overlap
    if nontrivial:
        labs.add("nontrivial")

    def access():
        if op == "include":
            inc = os.path.join(base, case["inc_from"])
            src = 'x = 1;\n#include "%s"\ny = 2;\n' % req
            rep = r.cmd(dict(op="preprocess", vm=0, text=src, file=inc, fresh=True))
            return rep, (rep.get("text") or ""), [l for l in rep.get("logs", []) if l["l"] <= 2]
        r.cmd(dict(op="setvar", vm=0, name="P", value={"t": "str", "v": req}))
        rep = r.run("R = %s P;" % op, vm=0, getvars=["R"], scheduled=False)
        logs = rep.get("logs", [])
        if op == "execVM":
            txt = "\n".join(l["m"] for l in logs if "[DIAG_LOG]" in l["m"])
        else:
            txt = rep.get("vars", {}).get("R", {}).get("sqf", "")
        return rep, txt, [l for l in logs if l["l"] <= 2]

    rep1, txt1, errs1 = access()
    rep2, txt2, errs2 = access()
    got = _tokens(txt1)
    ctx = "mappings (physical|virtual): %s\noperation: %s, request: %r%s\n" % (maps, op, req, (" from " + case["inc_from"]) if op == "include" else "")
    v = None
    tok_path = {t: rel for rel, t in TREE.items()}
    tok_path.update({t: rel for rel, (t, _i) in RELINC.items()})
    if "exception" in rep1:
        v = viol("exception|" + op, ctx + "exception escaped: %s" % rep1["exception"])
    elif _tokens(txt2) != got or bool(errs1) != bool(errs2):
        v = viol("nondeterministic|" + op, ctx + "same request, different answers: %s / %s" % (sorted(got), sorted(_tokens(txt2))))
    else:
        # containment (all requests)
        for t in got:
            p = os.path.join(base, tok_path.get(t, "?"))
            if op == "include" and tok_path.get(t) == case["inc_from"]:
                continue
            if not vfs.inside(p):
                v = viol("escape|%s|%s" % (op, case["kind"]), ctx + "the request yielded the content of %s, which lies outside every mapped physical directory" % p)
                break
        if v is None and case["kind"] == "relinc":
            segs = [x for x in req.split("/") if x]
            top = vfs.resolve(segs)
            if top and os.path.relpath(top, base) in RELINC:
                own, incs = RELINC[os.path.relpath(top, base)]
                want = {own}
                ambiguous = False
                for inc in incs:
                    phys_t = os.path.normpath(os.path.join(os.path.dirname(top), inc))
                    vsegs = os.path.normpath("/" + "/".join(segs[:-1]) + "/" + inc).split("/")
                    virt_t = vfs.resolve([x for x in vsegs if x])
                    if virt_t is None or os.path.realpath(virt_t) != os.path.realpath(phys_t):
                        ambiguous = True       # the virtual and the physical reading of "relative to the including file" differ: containment only
                    t = TREE.get(os.path.relpath(phys_t, base))
                    if t:
                        want.add(t)
                labs.add("relinc_ambiguous" if ambiguous else "relinc_decided")
                if not ambiguous and got != want:
                    v = viol("relative-include-wrong-file|%s" % op, ctx + "the file includes %s relative to itself (%s); expected the content of %s, got %s" % (
                        incs, os.path.relpath(top, base), sorted(want), sorted(tok_path.get(t, t) for t in got) or "nothing"))
        # strong oracle (requests without '..' and with a virtual spelling)
        if v is None and (case["kind"] == "dotdot" or (case["kind"] in ("canonical", "mutate") and ".." not in req)):
            segs = [s for s in req.replace("\\", "/").split("/") if s and s != "."]
            # a request without leading separator is a relative path: from an including file it is taken against that file
            # (physically next to it, else through its virtual directory), so only containment is asserted for it
            relative_from_file = op == "include" and "mut_nolead" in labs
            if "mut_dot" not in labs and "mut_upper" not in labs and not relative_from_file:
                exp = vfs.resolve(segs)
                if op == "include" and exp and os.path.relpath(exp, base) == case["inc_from"]:
                    return Result(inconclusive=True, labels=sorted(labs | {"self_include"}))
                exp_tok = TREE.get(os.path.relpath(exp, base)) if exp else None
                want = {exp_tok} if exp_tok else set()
                if op == "execVM" and exp_tok and not got:
                    v = viol("execvm-not-run", ctx + "execVM did not run the code of %s (its marker %s is missing; diagnostics: %s)" % (exp, exp_tok, [l["m"][:80] for l in errs1[:2]]))
                elif got != want:
                    v = viol("wrong-file|%s|%s" % (op, "overlap" if overlap else "simple"), ctx + "resolved to %s, the model resolves to %s" % (
                        sorted(tok_path.get(t, t) for t in got) or "nothing", os.path.relpath(exp, base) if exp else "nothing"))
                elif not want and not errs1 and op != "include":
                    v = viol("not-found-silent|" + op, ctx + "the file does not exist under the mappings, but no diagnostic was raised")
    return Result(nontrivial=nontrivial, labels=sorted(labs), violation=v)
