"""C03 - variable scoping: dynamic local lookup, private, namespaces, case-insensitivity."""
import json
from engine.driver import Result, viol
from engine import scopeprog, sqfprog

ID = "C03"
LEVEL = "exploration"
HANG_IS_VIOLATION = True     # every generated case terminates under the model: no reply (twice, then 3x confirmation) is a violation
ENGINE = "E-hyp"
TECHNIQUE = "property-based testing: generated binding/shadowing programs vs. a Python scope model (trace equality + namespace contents)"
RULE = ("cases = programs of binding operations (plain assignment, private string/array/assignment, params, reads, namespace get/setVariable) "
        "over 4 local and 4 global names in random letter case, nested in call/if/forEach/for/while/count scopes (depth<=4), spawned scripts "
        "and with-namespace blocks (nested); non-trivial = a local is accessed while bound in >=2 live scopes, or from >=2 scopes below its holder, "
        "or a global is accessed inside a with-block, or code is spawned; distinct = SHA-1 of the AST")
LEVEL_TEXT = ("Exploration: the trace of every read and the final contents of all four namespaces must equal the reference scope model "
              "for every generated program; unbounded program space.")
LEVEL_NOTE = ("Trusted: the scope model in engine/scopeprog.py, structural read-back by the runner, Hypothesis. Not asserted: noBubble__, "
              "magic variables other than _x/_forEachIndex/_this, execVM children (C16 covers execVM).")
ASSUMPTIONS = ["spawned code touches only locals (it runs interleaved with its starter)",
               "reads are direct (`_T pushBack [k, name]`): an undefined name yields nil plus a warning"]
SIZES = {"quick": dict(budget_s=45, batch=100), "thorough": dict(budget_s=600, batch=200)}
FLOORS = {"nontrivial": 0.4}


def strategy(env):
    big = env.tier == "thorough"
    return scopeprog.programs(max_depth=5 if big else 4, max_stmts=6 if big else 4).map(lambda p: dict(prog=p))


def _vm(env):
    r = env.runner()
    if env.cache.get("gen") != r.generation:
        r.new(vm=0, ops="full")
        env.cache["gen"] = r.generation
        env.cache["n"] = 0
    env.cache["n"] += 1
    if env.cache["n"] % 500 == 0:
        r.new(vm=0, ops="full")
    return r


def check(case, env):
    prog = case["prog"]
    labs, nontrivial = scopeprog.analyse(prog)
    if nontrivial:
        labs.add("nontrivial")
    m = scopeprog.ScopeModel()
    traces = m.run(prog)
    text = scopeprog.p_program(prog)
    r = _vm(env)
    r.cmd(dict(op="clearvars", vm=0))
    names = sorted(traces)
    rep = r.run(text, vm=0, getvars=names, getvars_struct=True, scheduled=False)
    v = None
    errs = [l for l in rep.get("logs", []) if l["l"] <= 1]
    if not rep.get("ok"):
        v = viol("rejected", "generated program rejected: %s\n%s" % (rep.get("logs", [])[:2], text))
    elif rep["result"] not in ("ok", "empty") or errs:
        v = viol("error|%s" % (errs[0]["c"] if errs else rep["result"]), "program raised a diagnostic / did not complete (result=%s)\nprogram: %s\nlogs: %s" % (
            rep["result"], text, [l["m"] for l in errs[:3]]))
    else:
        for nm in names:
            try:
                got = sqfprog.vm_value(rep["vars"][nm]["value"])
            except KeyError:
                got = "<missing>"
            if got != traces[nm]:
                kind = "spawn" if nm.startswith("S") else ("with-nested-scope" if "with_nested_scope" in labs else ("with" if "with" in labs else "locals"))
                v = viol("trace-mismatch|" + kind, "trace %s differs from the scope model\nprogram: %s\nexpected: %s\nvm:       %s" % (
                    nm, text, json.dumps(traces[nm]), json.dumps(got)))
                break
        if v is None:
            for ns in scopeprog.NAMESPACES:
                av = r.cmd(dict(op="allvars", vm=0, ns=ns))["vars"]
                got = {k: val for k, val in av if val != "nil"}
                exp = {k: (scopeprog.num(val) if val != "TRACE" else None) for k, val in m.ns[ns].items()}
                gk = {k: (None if k in ("t",) or k.startswith("s") and k[1:].isdigit() else val) for k, val in got.items()}
                if set(gk) != set(exp) or any(exp[k] is not None and gk[k] != exp[k] for k in exp):
                    v = viol("namespace-mismatch|" + ("with-nested-scope" if "with_nested_scope" in labs else ("with" if "with" in labs else "plain")), "contents of %s differ\nprogram: %s\nexpected: %s\nvm:       %s" % (ns, text, exp, got))
                    break
    return Result(nontrivial=nontrivial, labels=sorted(labs), violation=v)
