"""C10 - front ends are total: any input yields a result or a diagnostic, never a crash."""
import glob, hashlib, json, os, re
from hypothesis import strategies as st
from engine.driver import Result, viol
from engine.runner import RunnerCrash, sanitizer_signature

ID = "C10"
LEVEL = "exploration"
ENGINE = "E-hyp"
TECHNIQUE = "fuzzing with semantic oracle: prefixes/token mutations of valid inputs, grammar-generated hostile inputs and random bytes through six front-end entry points; oracle = terminates, no sanitizer report/exception, result-or-error-diagnostic, run-twice determinism; every prefix of the smallest seed files in the thorough tier; coverage-guided libFuzzer target (runner/fuzz_frontend.cpp, oracle inside the target, 20 s quick / 8 min thorough) whose artifacts are replayed through the same check"
RULE = ("cases = (entry point, input) with entry in {preprocessor, SQF parser, config parser, compile, preprocess__, configparse__}; inputs are prefixes of the "
        "repository's test scripts/configs/preprocessor goldens, single-token mutations of them (delete/duplicate/swap/replace by a delimiter or directive), "
        "hostile templates (number-like tokens with every part optional in value positions, unterminated string/comment/macro call/directive at end of input, self- and mutually-recursive macros, include cycles, nesting depth "
        "up to 3000) and random byte strings; non-trivial = the input is not accepted cleanly by its front end or ends inside a token/construct; "
        "distinct = SHA-1 of (entry, input)")
LEVEL_TEXT = ("Exploration (fuzzing): each case must terminate within a budget far above linear time, produce a result or at least one error diagnostic, "
              "leave the sanitizers silent and give the same result and diagnostics when repeated.")
LEVEL_NOTE = ("Trusted: ASan/UBSan as crash/over-read oracle, the runner's log capture, the timeout as non-termination detector (3 s, retried with 12 s). "
              "Moderately super-linear behaviour below the timeout is not detected.")
ASSUMPTIONS = ["a reply later than 12 s for an input of < 20 KB counts as non-termination", "UBSan vptr/function checks are off (see DESIGN 2.2)"]
SIZES = {"quick": dict(budget_s=40, batch=100, fuzz_s=20), "thorough": dict(budget_s=480, batch=200, fuzz_s=480)}
FLOORS = {"nontrivial": 0.4}
ENTRIES = ["preprocess", "sqf", "config", "compile", "preprocess__", "configparse__"]


def _seeds():
    out = []
    for pat in ("/repo/tests/sqf/*.sqf", "/repo/tests/*.sqf", "/repo/tests/config.cpp", "/repo/tests/preprocess/*.sqf", "/repo/tests/preprocess/*.txt"):
        for f in sorted(glob.glob(pat)):
            try:
                data = open(f, "rb").read().decode("latin-1")
            except OSError:
                continue
            if len(data) <= 8192:
                out.append((os.path.basename(f), data))
    out.append(("cba_snippet.hpp", CBA))
    return out


CBA = """#define QUOTE(var1) #var1
#define DOUBLES(var1,var2) var1##_##var2
#define TRIPLES(var1,var2,var3) var1##_##var2##_##var3
#define PREFIX cba
#define COMPONENT main
#define ADDON DOUBLES(PREFIX,COMPONENT)
#define GVAR(var1) DOUBLES(ADDON,var1)
#ifdef DEBUG_MODE_FULL
#define LOG(msg) diag_log msg
#else
#define LOG(msg) /* disabled */
#endif
GVAR(test) = QUOTE(ADDON); // comment
LOG("x");
#ifndef FOO
  class CfgPatches { class ADDON { units[] = {}; version = 1.0; author = QUOTE(me); }; };
#endif
"""

TOKEN_RE = re.compile(r'"(?:[^"]|"")*"|\'(?:[^\']|\'\')*\'|//[^\n]*|/\*.*?\*/|#\w+|\w+|\s+|.', re.S)
REPLACEMENTS = ['"', "'", "/*", "*/", "//", "#", "\\", "\\\n", "(", ")", "{", "}", "[", "]", ";", ",", "=", ":", "#define", "#include", "#ifdef", "#ifndef", "#else",
                "#endif", "#undef", "#line", "#line 5", "#line x", "__LINE__", "__FILE__", "__EVAL(", "class", "delete", "+=", "$", "0x", "1e", ".", "\x00", "\xff", "\r"]

HOSTILE = [
    '1 // c', '// c', 'a = 1; /* never closed', '/*', '/', '"abc', "'abc", 'x = "a""', '{', '[', '(', '}', ']', ')', '[1,', 'a =', 'private', 'private _a =',
    '#', '#define', '#define A', '#define A(', '#define A(x', '#define A(x) x\nA(', '#define A(x) x\nA(1', '#define A(x) x\nA(1,2)', '#define A() 1\nA(5)', '#define A(,x) x\nA(1,2)',
    '#define A "abc\nA', '#define R R\nR', '#define RA RB\n#define RB RA\nRA', '#define F(x) F(x)\nF(1)', '#define F(x) G(x)\n#define G(x) F(x)\nF(1)',
    '#include', '#include "', '#include "nofile.hpp"', '#include <nofile>', '#ifdef', '#ifdef A', '#ifndef A\n', '#else', '#endif', '#if 1\n#endif', '#undef', '#undef A',
    '#line', '#line x', '#line 99999999999999999999', '#line 5 "f', '#pragma', '#pragma foo', '#foo', 'a #line 3\n', '__EVAL(', '__EVAL(1+', '__EXEC(', '__LINE__ __FILE__',
    'class', 'class A', 'class A {', 'class A {};', 'class A : ', 'class A : B {};', 'a[] = {', 'a[] = {1,', 'a[] += {1};', 'a = ;', 'a = "x', 'delete', 'delete A', 'class A { class A : A {}; };',
    '1e', '1e+', '0x', '$', '.', '1.', '1..2', '999999999999999999999999999999999999999999999', '0xFFFFFFFFFFFFFFFFFFFFFFFF', '"\\', '\\', '\\\n', 'a\\\nb', '\r\n', '\x00', 'a\x00b', '\xff\xfe',
    '""""""', "''''", '"a" "b"', '1 2', 'a b c', '+ + +', '- - - 1', '!', '=', '==', 'a == == b', ';;;;', ',,,,', '; , ;',
]


def _nest(depth, open_c, close_c, closed):
    return open_c * depth + (close_c * depth if closed else "")


@st.composite
def _inputs(draw, seeds):
    kind = draw(st.sampled_from(["prefix", "prefix", "mutate", "mutate", "hostile", "hostile", "nest", "bytes", "number"]))
    if kind == "number":
        # number-like tokens with every part optional (`.e3`, `1.e`, `0x`, `1e+`, `$`, `.5e-`, `1.2.3` ...) where a value is expected
        if draw(st.integers(0, 3)) == 0:
            tok = draw(st.sampled_from(["0x", "$"])) + draw(st.sampled_from(["", "1F", "G", "ffffffffff", "1.5", "e3"]))
        else:
            tok = (draw(st.sampled_from(["", "", "-", "+"])) + draw(st.sampled_from(["", "0", "1", "12", "999999999999"])) + draw(st.sampled_from(["", ".", ".", ".."]))
                   + draw(st.sampled_from(["", "", "5", "05"])) + draw(st.sampled_from(["", "e", "E", "e", "f"])) + draw(st.sampled_from(["", "+", "-"])) + draw(st.sampled_from(["", "3", "99", "9999"])))
        frame = draw(st.sampled_from(["_a = [1, %s];", "diag_log %s", "x = %s;", "a = %s;", "a[] = {1, %s};", "class A { v = %s; };", "%s", "#define N %s\nb = N;", "[%s, %s]"]))
        return dict(kind=kind, input=frame.replace("%s", tok))
    if kind == "prefix":
        name, s = draw(st.sampled_from(seeds))
        n = draw(st.integers(0, len(s)))
        return dict(kind=kind, seed=name, input=s[:n])
    if kind == "mutate":
        name, s = draw(st.sampled_from(seeds))
        toks = TOKEN_RE.findall(s)
        if len(toks) < 2:
            return dict(kind=kind, seed=name, input=s)
        # work on a window so that cases stay small
        start = draw(st.integers(0, max(0, len(toks) - 1)))
        win = toks[max(0, start - 60):start + 60]
        i = draw(st.integers(0, len(win) - 1))
        how = draw(st.sampled_from(["delete", "dup", "swap", "replace", "insert"]))
        if how == "delete":
            del win[i]
        elif how == "dup":
            win.insert(i, win[i])
        elif how == "swap" and i + 1 < len(win):
            win[i], win[i + 1] = win[i + 1], win[i]
        elif how == "replace":
            win[i] = draw(st.sampled_from(REPLACEMENTS))
        else:
            win.insert(i, draw(st.sampled_from(REPLACEMENTS)))
        return dict(kind=kind, seed=name, input="".join(win))
    if kind == "hostile":
        base = draw(st.sampled_from(HOSTILE))
        pre = draw(st.sampled_from(["", "", "a = 1;\n", "class X {};\n", "#define Q 1\n", "// c\n", "/* c */"]))
        post = draw(st.sampled_from(["", "", "\n", " ", "\n\n"]))
        return dict(kind=kind, input=pre + base + post)
    if kind == "nest":
        o, c = draw(st.sampled_from([("(", ")"), ("[", "]"), ("{", "}"), ("class A{", "};"), ("[1,", "]"), ("-", ""), ("!", "")]))
        # depth 3000 is kept as one class: it carries the label deep_nesting (known finding: recursion depth grows with nesting depth)
        depth = draw(st.sampled_from([1, 2, 10, 50, 100, 150, 3000]))
        closed = draw(st.booleans())
        return dict(kind=kind, input=_nest(depth, o, c, closed) if c else o * depth + "1")
    data = draw(st.binary(max_size=60))
    return dict(kind=kind, input=data.decode("latin-1"))


def strategy(env):
    seeds = _seeds()
    return st.tuples(st.sampled_from(ENTRIES), _inputs(seeds)).map(lambda t: dict(entry=t[0], **t[1]))


def _features(text):
    f = set()
    last = text.rsplit("\n", 1)[-1]
    if "//" in last:
        f.add("ends_in_line_comment")
    if text.count("/*") > text.count("*/"):
        f.add("unterminated_block_comment")
    if "#line" in text:
        f.add("has_line_directive")
    if re.search(r"#define\s+(\w+)(\([^)]*\))?[^\n]*\b\1\b", text):
        f.add("self_recursive_macro")
    if "#define" in text:
        f.add("has_define")
    if "#include" in text:
        f.add("has_include")
    if "\x00" in text:
        f.add("has_nul")
    if len(text) > 600 and len(set(text)) < 14:
        f.add("deep_nesting")
    return f


def _vm(env):
    r = env.runner(timeout=3.0)
    if env.cache.get("gen") != r.generation:
        r.new(vm=0, ops="full")
        env.cache["gen"] = r.generation
        env.cache["n"] = 0
    env.cache["n"] += 1
    if env.cache["n"] % 300 == 0:
        r.new(vm=0, ops="full")
    return r


def _once(r, entry, text, timeout):
    if entry in ("preprocess", "preprocess__") and "__" in text.replace("\\\n", "").replace("\\\r\n", ""):
        # __COUNTER__ is documented per-VM state: "the same input" means the same text in the same state, so the counter is put back first
        r.cmd(dict(op="preprocess", vm=0, text="__COUNTER_RESET__", fresh=True, file="/fz/reset.sqf"), timeout=timeout)
    if entry == "preprocess":
        rep = r.cmd(dict(op="preprocess", vm=0, text=text, fresh=True, file="/fz/in.sqf"), timeout=timeout)
        return rep, rep.get("ok"), rep.get("text")
    if entry == "sqf":
        rep = r.cmd(dict(op="asm", vm=0, sqf=text), timeout=timeout)
        return rep, rep.get("ok"), json.dumps(rep.get("asm"))
    if entry == "config":
        rep = r.cmd(dict(op="config_load", vm=0, text=text, syntax_only=False), timeout=timeout)
        return rep, rep.get("ok"), None
    r.cmd(dict(op="setvar", vm=0, name="S", value={"t": "str", "v": text}))
    script = {"compile": "R = compile S;", "preprocess__": "R = preprocess__ S;", "configparse__": "R = configparse__ S;"}[entry]
    rep = r.run(script, vm=0, getvars=["R"], timeout=timeout)
    ok = rep.get("result") in ("ok", "empty") and "R" in rep.get("vars", {})
    return rep, ok, rep.get("vars", {}).get("R", {}).get("sqf")


def check(case, env):
    entry, text = case["entry"], case["input"]
    feats = _features(text)
    labs = ["entry_" + entry, "kind_" + case.get("kind", "?")] + sorted(feats)
    r = _vm(env)
    v = None
    results = []
    for attempt in range(2):
        try:
            rep, ok, out = _once(r, entry, text, 3.0)
        except RunnerCrash as rc:
            if rc.kind == "timeout":
                # retry once with a far larger budget before calling it non-termination
                try:
                    r2 = _vm(env)
                    rep, ok, out = _once(r2, entry, text, 12.0)
                except RunnerCrash as rc2:
                    if rc2.kind == "timeout":
                        return Result(nontrivial=True, labels=labs + ["nontrivial", "hang"], violation=viol(
                            "hang|%s|%s" % (entry, "+".join(sorted(feats)) or "other"), "no completion within 12 s for a %d byte input through %s\ninput: %r" % (len(text), entry, text[:400])))
                    rc = rc2
                else:
                    results.append((ok, out, [(l["l"], l["c"], l["m"]) for l in rep.get("logs", [])]))
                    continue
            sig = sanitizer_signature(rc.detail)
            return Result(nontrivial=True, labels=labs + ["nontrivial", "crash"], violation=viol(
                "crash|%s|%s" % (entry, sig), "front end %s crashed on a %d byte input\ninput: %r\n%s" % (entry, len(text), text[:400], rc.detail[-1200:])))
        if "exception" in rep:
            return Result(nontrivial=True, labels=labs + ["nontrivial", "exception"], violation=viol(
                "exception|%s|%s" % (entry, rep.get("exception_type", "?")), "a C++ exception escaped front end %s: %s\ninput: %r" % (entry, rep["exception"], text[:400])))
        if rep.get("stderr") and "runtime error:" in rep["stderr"]:
            return Result(nontrivial=True, labels=labs + ["nontrivial", "ubsan"], violation=viol(
                "ubsan|%s|%s" % (entry, sanitizer_signature(rep["stderr"])), "undefined behaviour in front end %s\ninput: %r\n%s" % (entry, text[:400], rep["stderr"][:800])))
        logs = rep.get("logs", [])
        errs = [l for l in logs if l["l"] <= 1]
        if not ok and not errs:
            v = viol("silent-failure|%s" % entry, "front end %s returned no result and no error diagnostic\ninput: %r\nlogs: %s" % (entry, text[:400], [l["m"][:80] for l in logs[:3]]))
            break
        results.append((ok, out, [(l["l"], l["c"], l["m"]) for l in logs]))
    if v is None and len(results) == 2 and results[0] != results[1]:
        v = viol("nondeterministic|%s" % entry, "same input, different outcome on the second run\ninput: %r\nfirst: %s\nsecond: %s" % (text[:300], str(results[0])[:300], str(results[1])[:300]))
    clean = bool(results) and bool(results[0][0]) and not [l for l in results[0][2] if l[0] <= 1]
    nontrivial = (not clean) or bool(feats & {"ends_in_line_comment", "unterminated_block_comment"})
    if nontrivial:
        labs.append("nontrivial")
    if clean:
        labs.append("accepted_cleanly")
    return Result(nontrivial=nontrivial, labels=labs, violation=v)


FUZZ_ENTRIES = {0: "preprocess", 1: "sqf", 2: "config"}
FUZZ_DICT = ["#define ", "#include ", "#ifdef ", "#ifndef ", "#else", "#endif", "#undef ", "#line ", "__EVAL(", "__EXEC(", "__LINE__", "__FILE__", "__COUNTER__", "##", "/*", "*/", "//", ".e", "e+", "0x", "$", "1.",
             "class ", "delete ", "[] = {", "};", "private ", "params ", "call ", "then ", "else ", "exitWith ", "forEach ", "0x", "$", "1e9", "\\\n"]


def _prefix_cases(limit_files=60, max_len=6000):
    """every prefix of the smallest seed files, through the front end the file is written for (+ the preprocessor)"""
    seeds = sorted(_seeds(), key=lambda s_: len(s_[1]))
    out = []
    for name, data in [s_ for s_ in seeds if 20 <= len(s_[1]) <= max_len][:limit_files]:
        entries = ["preprocess"] + (["config"] if name.endswith((".cpp", ".hpp")) else ["sqf"])
        for e in entries:
            for i in range(len(data) + 1):
                out.append(dict(entry=e, input=data[:i], kind="every_prefix"))
    return out


def _prefix_shard(shard):
    from engine.driver import Env
    env = Env(ID, "thorough", 0, 300 + (os.getpid() % 1000))
    out = dict(evaluations=0, nontrivial=[], violations=[])
    try:
        for case in shard:
            try:
                res = check(case, env)
            except RunnerCrash as rc:
                res = Result(nontrivial=True, labels=["crash"], violation=viol("crash|%s|%s" % (case["entry"], sanitizer_signature(rc.detail)), rc.detail[-800:]))
            out["evaluations"] += 1
            if res.nontrivial:
                out["nontrivial"].append(hashlib.sha1(json.dumps(case, sort_keys=True).encode()).hexdigest())
            if res.violation is not None and len(out["violations"]) < 30:
                out["violations"].append(dict(case=case, sig=res.violation["sig"], msg=res.violation["msg"], labels=res.labels))
    finally:
        env.close()
    return out


def _every_prefix(sizes):
    import multiprocessing
    todo = _prefix_cases()
    nproc = sizes.get("workers", 16)
    with multiprocessing.get_context("fork").Pool(nproc) as pool:
        results = pool.map(_prefix_shard, [todo[i::nproc] for i in range(nproc)])
    out = dict(evaluations=0, nontrivial=[], violations=[])
    seen = set()
    for res in results:
        out["evaluations"] += res["evaluations"]
        out["nontrivial"] += res["nontrivial"]
        for v in res["violations"]:
            if v["sig"] not in seen:
                seen.add(v["sig"])
                out["violations"].append(v)
    return out


def extra(env, tier, seed, sizes):
    """(1) thorough tier: every prefix of the smallest seed files; (2) coverage-guided part (E-fuzz): libFuzzer on the preprocessor /
    SQF parser / config parser with the oracle inside the target (runner/fuzz_frontend.cpp); every artifact is replayed through the
    runner as an ordinary case of this check"""
    from engine import fuzz
    pre = _every_prefix(sizes) if tier == "thorough" else dict(evaluations=0, nontrivial=[], violations=[])
    secs = sizes.get("fuzz_s", 0)
    if not secs:
        return dict(pre, labels={"every_prefix": pre["evaluations"]}, samples=[], info=dict(every_prefix=pre["evaluations"]))
    seeds = []
    for _name, data in _seeds():
        raw = data.encode("latin-1")[:2000]
        for e in (0, 1, 2):
            seeds.append(bytes([e]) + raw)
    res = fuzz.campaign("fuzz_frontend", secs, seed, seeds[:400], os.path.join(env.scratch_dir(), "fuzz_frontend"), max_len=2048, timeout_s=10, dict_words=FUZZ_DICT)
    out = dict(evaluations=0, nontrivial=[], labels={"libfuzzer_execs": res["execs"], "libfuzzer_artifacts": len(res["artifacts"])}, violations=[], samples=[],
               info=dict(libfuzzer=dict(target="fuzz_frontend", execs=res["execs"], cov=res["cov"], wall_s=res["wall_s"], artifacts=len(res["artifacts"]))))
    seen = set()
    for kind, data in res["artifacts"]:
        if kind not in ("crash", "timeout", "leak") or len(data) < 1 or data in seen or len(seen) >= 150:
            continue
        seen.add(data)
        case = dict(entry=FUZZ_ENTRIES[data[0] % 3], input=data[1:].decode("latin-1"), kind="libfuzzer")
        try:
            r = check(case, env)
        except RunnerCrash as rc:
            r = Result(nontrivial=True, labels=["crash"], violation=viol("crash|%s|%s" % (case["entry"], sanitizer_signature(rc.detail)), rc.detail[-1200:]))
        out["evaluations"] += 1
        out["nontrivial"].append(hashlib.sha1(data).hexdigest())
        for l in r.labels:
            out["labels"][l] = out["labels"].get(l, 0) + 1
        if r.violation is not None:
            out["violations"].append(dict(case=case, sig=r.violation["sig"], msg=r.violation["msg"], labels=r.labels))
        else:
            out["labels"]["artifact_not_reproduced_in_runner"] = out["labels"].get("artifact_not_reproduced_in_runner", 0) + 1
    out["evaluations"] += pre["evaluations"]
    out["nontrivial"] += pre["nontrivial"]
    out["violations"] += pre["violations"]
    out["labels"]["every_prefix"] = pre["evaluations"]
    out["info"]["every_prefix"] = pre["evaluations"]
    return out
