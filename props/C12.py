"""C12 - scheduler is fair and isolating; sleep, scriptDone, terminate work as documented."""
import hashlib, json, os
from hypothesis import strategies as st
from engine.driver import Result, viol
from engine.sqfprog import vm_value
from engine.runner import RunnerCrash, sanitizer_signature

ID = "C12"
LEVEL = "exploration"
HANG_IS_VIOLATION = True     # every generated case terminates under the model: no reply (twice, then 3x confirmation) is a violation
ENGINE = "E-hyp"
TECHNIQUE = "schedule exploration with owned slice length and virtual clock (hooks H1,H2) and invariants over the recorded history of every instruction and scheduler visit (hooks H3,H4); small configurations enumerated exhaustively in the thorough tier"
RULE = ("cases = 1-6 spawned scripts, each a list of 1-12 steps from {marker, local computation of 1-40 instructions, sleep 0..1 s, spawn a child, terminate an "
        "earlier script or itself, poll scriptDone of an earlier script}, plus a late poller; slice length 1..25 or 150; virtual clock; invariants F1 slice bound, "
        "F2 round-robin (between two visits of X every script alive throughout is visited exactly once), F3 no execution before the wake-up time, F4 scriptDone "
        "truthful and monotonic, F5 nothing executes after terminate, F6 every script's own event sequence is what it is when run alone; "
        "non-trivial = >=2 scripts and a finish/sleep/spawn/terminate event while another script is mid-list; distinct = SHA-1 of the case")
LEVEL_TEXT = ("Exploration of schedules with harness-owned slice length and clock: no exact interleaving is predicted, the recorded history of scheduler visits and "
              "instructions must satisfy the fairness/sleep/terminate/scriptDone invariants. The thorough tier additionally enumerates all configurations of "
              "<=3 scripts x <=2 steps x slice <=3.")
LEVEL_NOTE = ("Trusted: hooks H1-H4 and the recording code in runner.cpp, the invariant checker in this file. Liveness ('no script is starved') is checked as the "
              "bounded-history safety property F2.")
ASSUMPTIONS = ["scripts share no data except the global event log G (append-only)", "virtual clock 1 ms per read"]
SIZES = {"quick": dict(budget_s=45, batch=60), "thorough": dict(budget_s=600, batch=150)}
FLOORS = {"nontrivial": 0.5}


@st.composite
def _cases(draw, max_scripts=6, max_steps=12):
    n = draw(st.integers(1, max_scripts))
    scripts = []
    for k in range(n):
        steps = []
        for _ in range(draw(st.integers(1, max_steps))):
            kinds = ["mark", "mark", "compute", "compute", "sleep", "spawn"]
            if k > 0:
                kinds += ["terminate", "poll", "poll"]
            kinds += ["selfterm"] if draw(st.integers(0, 5)) == 0 else []
            c = draw(st.sampled_from(kinds))
            if c == "mark":
                steps.append(["mark"])
            elif c == "compute":
                steps.append(["compute", draw(st.integers(1, 20))])
            elif c == "sleep":
                steps.append(["sleep", draw(st.sampled_from([0, 0.001, 0.002, 0.01, 0.1, 0.5, 0.0019, 0.0025, 0.0101]))])
            elif c == "spawn":
                steps.append(["spawn", draw(st.integers(1, 4))])
            elif c == "terminate":
                steps.append(["terminate", draw(st.integers(0, k - 1))])
            elif c == "poll":
                steps.append(["poll", draw(st.integers(0, k - 1))])
            else:
                steps.append(["selfterm"])
        scripts.append(steps)
    return dict(scripts=scripts, slice=draw(st.sampled_from([1, 2, 3, 5, 7, 12, 25, 150])))


def strategy(env):
    return _cases()


def build(case):
    """returns (program text, expected own-event sequence per script id, info)"""
    parts = ["G = [];"]
    expected = {}
    nchild = 0
    child_expected = {}
    terminated_by_others = set()
    for k, steps in enumerate(case["scripts"]):
        body = []
        seq = []
        m = 0
        for s in steps:
            if s[0] == "mark":
                m += 1
                body.append('G pushBack ["m", %d, %d]' % (k, m))
                seq.append(["m", float(k), float(m)])
            elif s[0] == "compute":
                body.append("private _c = 0; " + "; ".join("_c = _c + 1" for _ in range(s[1])))
            elif s[0] == "sleep":
                body.append("sleep %s" % s[1])
                m += 1
                body.append('G pushBack ["w", %d, %d]' % (k, m))
                seq.append(["w", float(k), float(m)])
            elif s[0] == "spawn":
                nchild += 1
                cid = 100 + nchild
                cbody = "; ".join('G pushBack ["m", %d, %d]' % (cid, i + 1) for i in range(s[1])) + '; G pushBack ["end", %d]' % cid
                body.append("[] spawn {%s}" % cbody)
                child_expected[cid] = [["m", float(cid), float(i + 1)] for i in range(s[1])] + [["end", float(cid)]]
            elif s[0] == "terminate":
                m += 1
                body.append('G pushBack ["t", %d, %d, %d]; terminate h%d' % (k, m, s[1], s[1]))
                seq.append(["t", float(k), float(m), float(s[1])])
                terminated_by_others.add(s[1])
            elif s[0] == "poll":
                m += 1
                body.append('G pushBack ["sd", %d, %d, %d, scriptDone h%d]' % (k, m, s[1], s[1]))
                seq.append(["sd", float(k), float(m), float(s[1])])
            elif s[0] == "selfterm":
                m += 1
                body.append('G pushBack ["st", %d, %d]; terminate _thisScript' % (k, m))
                seq.append(["st", float(k), float(m)])
        body.append('G pushBack ["end", %d]' % k)
        seq.append(["end", float(k)])
        expected[k] = seq
        parts.append("h%d = [] spawn {%s};" % (k, "; ".join(body)))
    n = len(case["scripts"])
    # late poller: long after everything has finished every handle must report done
    polls = "; ".join('G pushBack ["late", %d, scriptDone h%d]' % (j, j) for j in range(n))
    parts.append("[] spawn {sleep 3; %s; G pushBack [\"end\", 99]};" % polls)
    expected.update(child_expected)
    return "\n".join(parts), expected, terminated_by_others


def check(case, env):
    r = env.runner()
    r.new(vm=0, ops="full", virtual_clock=True, clock_delta_us=1000, slice=case["slice"])
    r.cmd(dict(op="observe", enabled=True, record=True, check_stack=False, max_records=400000))
    text, expected, term_targets = build(case)
    rep = r.run(text, vm=0, getvars=["G"], getvars_struct=True, timeout=60.0)
    obs = rep.get("obs", {})
    r.cmd(dict(op="observe", enabled=False))
    labs = set()
    n = len(case["scripts"])
    kinds = {s[0] for st_ in case["scripts"] for s in st_}
    labs |= {"has_" + k for k in kinds}
    nontrivial = n >= 2 and bool(kinds & {"sleep", "spawn", "terminate", "selfterm"} or n >= 2)
    if n >= 2:
        labs.add("multi")
    errs = [l for l in rep.get("logs", []) if l["l"] <= 1]
    ctx = "slice=%d\n%s\n" % (case["slice"], text)
    if not rep.get("ok") or rep.get("result") not in ("ok", "empty") or errs:
        return Result(nontrivial=nontrivial, labels=sorted(labs), violation=viol(
            "run-failed", ctx + "the scheduled scripts did not run to completion: result=%s logs=%s" % (rep.get("result"), [l["m"][:100] for l in errs[:3]])))
    if len(obs.get("recs", [])) >= 399999 or len(obs.get("slices", [])) >= 399999:
        return Result(inconclusive=True, labels=["history_truncated"])
    G = vm_value(rep["vars"]["G"]["value"])
    recs = obs.get("recs", [])          # [ctx, frames, values, line, inst, t_us]
    slices = obs.get("slices", [])      # [ctx, suspended, wake_us, t_us, idx, nctx]
    v = _invariants(case, G, recs, slices, expected, term_targets, ctx)
    if nontrivial:
        labs.add("nontrivial")
    return Result(nontrivial=nontrivial, labels=sorted(labs), violation=v)


def _invariants(case, G, recs, slices, expected, term_targets, ctx):
    sl = case["slice"]
    # ---- rebuild visits: recs carry no slice marker, so interleave by time order is not enough; use counts:
    # the runner records slice_begin events and instruction records in execution order in two lists; an instruction belongs to the
    # last slice_begin of its context that happened before it. Both lists are ordered; merge by replaying.
    # F1: maximal runs of one context between two scheduler visits are <= slice
    # we need the merged order: recs have t_us, slices have t_us (virtual time is strictly increasing with every clock read, but not every
    # instruction reads the clock) -> use per-context counting instead.
    per_ctx_recs = {}
    for i, rc in enumerate(recs):
        per_ctx_recs.setdefault(rc[0], []).append((i, rc))
    # merged history in execution order (seq is a global counter over instruction records and scheduler visits)
    merged = sorted([("v", s[6], s) for s in slices] + [("i", rc[6], rc) for rc in recs], key=lambda e: e[1])
    cur = None
    cnt = 0
    for kind, _seq, e in merged:
        if kind == "v":
            cur, cnt = e, 0
            continue
        if cur is None:
            return viol("harness-mapping", ctx + "internal: an instruction was recorded before any scheduler visit")
        if e[0] != cur[0]:
            return viol("isolation", ctx + "context %d executed an instruction inside the slice given to context %d" % (e[0], cur[0]))
        cnt += 1
        # F1: a slice is at most `slice` instructions long
        if cnt > sl:
            return viol("F1-slice-exceeded", ctx + "context %d executed more than %d instructions in one slice" % (e[0], sl))
        # F3: a sleeping context whose wake-up time lies in the future executes nothing (tolerance: the two clock reads of the scheduler)
        if cur[1] and cur[2] > cur[3] + 2500:
            return viol("F3-early-wakeup", ctx + "context %d was resumed at virtual time %d us, its wake-up time is %d us" % (cur[0], cur[3], cur[2]))
    # F3b: independent of the wake-up time the VM computed itself: the next instruction of a script after `sleep d`
    # is not executed before d has passed on the virtual clock (the argument is the PUSH in front of the CALLUNARY sleep)
    last_push = {}
    pending = {}
    for rc in recs:
        cx, inst, t_us = rc[0], rc[4], rc[5]
        if cx in pending:
            t0, dur = pending.pop(cx)
            if t_us < t0 + dur * 1e6 - 1:
                return viol("F3-resumed-before-sleep-elapsed", ctx + "context %d executed `sleep %s` at virtual time %d us and its next instruction (%s) at %d us, %d us too early" % (
                    cx, dur, t0, inst, t_us, t0 + dur * 1e6 - t_us))
        if inst.startswith("PUSH "):
            last_push[cx] = inst[5:]
        elif inst == "CALLUNARY sleep":
            try:
                pending[cx] = (t_us, float(last_push.get(cx, "0")))
            except ValueError:
                pass
    # F2: between two consecutive visits of X every context alive throughout is visited exactly once
    order = [s[0] for s in slices]
    first = {}
    last = {}
    for i, c in enumerate(order):
        first.setdefault(c, i)
        last[c] = i
    pos = {}
    for i, c in enumerate(order):
        if c in pos:
            a = pos[c]
            between = order[a + 1:i]
            for y in set(first):
                if y == c:
                    continue
                if first[y] < a and last[y] > i:
                    cnt = between.count(y)
                    if cnt != 1:
                        return viol("F2-round-robin", ctx + "between two consecutive scheduler visits of context %d (visit #%d and #%d) context %d was visited %d times; visit order around: %s" % (
                            c, a, i, y, cnt, order[max(0, a - 3):i + 4]))
        pos[c] = i
    # ---- map events of G to contexts through the pushBack instructions
    push_recs = [rc for rc in recs if rc[4] == "CALLBINARY pushback"]
    if len(push_recs) != len(G):
        return viol("harness-mapping", ctx + "internal: %d pushBack instructions recorded, %d events in G" % (len(push_recs), len(G)))
    sid_ctx = {}
    for ev, rc in zip(G, push_recs):
        sid = int(ev[1]) if ev[0] != "late" else 99
        if ev[0] == "late":
            continue
        if sid in sid_ctx and sid_ctx[sid] != rc[0]:
            return viol("isolation", ctx + "events of script %d were executed by two different contexts" % sid)
        sid_ctx[sid] = rc[0]
    # F6: own event sequence of each script (prefix if it was terminated by someone / itself)
    proj = {}
    for ev in G:
        if ev[0] == "late":
            continue
        sid = int(ev[1])
        e = list(ev)
        if e[0] == "sd":
            e = e[:4]
        proj.setdefault(sid, []).append(e)
    self_term = {k for k, st_ in enumerate(case["scripts"]) if any(s[0] == "selfterm" for s in st_)}
    parent_of = {}
    nchild = 0
    for k, st_ in enumerate(case["scripts"]):
        for s_ in st_:
            if s_[0] == "spawn":
                nchild += 1
                parent_of[100 + nchild] = k
    for sid, exp in expected.items():
        got = proj.get(sid, [])
        may_be_cut = sid in term_targets or sid in self_term
        if sid >= 100 and got == [] and parent_of.get(sid) in (term_targets | self_term):
            continue        # the parent was cut before it spawned this child
        if got != exp and not (may_be_cut and got == exp[:len(got)]):
            return viol("F6-own-sequence", ctx + "script %d executed the events %s, alone it executes %s" % (sid, got, exp))
    # F4: scriptDone truthful and monotonic
    ended = set()
    done_seen = set()
    term_issued = set()
    # events in the order in which they happened: an `sd` observation is taken when scriptDone is evaluated, which may be a
    # slice earlier than the pushBack that records it (found as a false alarm: value computed, slice over, target finishes, value pushed)
    pushes = [i for i, rc in enumerate(recs) if rc[4] == "CALLBINARY pushback"]
    timed = []
    for gi, ev in enumerate(G):
        at = pushes[gi] if gi < len(pushes) else 10 ** 9 + gi
        if ev[0] == "sd" and gi < len(pushes):
            cx = recs[at][0]
            for i in range(at - 1, -1, -1):
                if recs[i][0] == cx and recs[i][4] == "CALLUNARY scriptdone":
                    at = i
                    break
        timed.append((at, gi, ev))
    timed.sort(key=lambda t: (t[0], t[1]))
    for _at, _gi, ev in timed:
        if ev[0] == "end":
            ended.add(int(ev[1]))
        elif ev[0] == "t":
            term_issued.add(int(ev[3]))
        elif ev[0] == "st":
            term_issued.add(int(ev[1]))
        elif ev[0] == "sd":
            j, val = int(ev[3]), ev[4]
            if val is True and j not in ended and j not in term_issued:
                return viol("F4-scriptdone-early", ctx + "scriptDone h%d is true although script %d still has statements to run" % (j, j))
            if val is False and j in done_seen:
                return viol("F4-scriptdone-not-monotonic", ctx + "scriptDone h%d was true before and is false now" % j)
            if val is True:
                done_seen.add(j)
        elif ev[0] == "late":
            j, val = int(ev[1]), ev[2]
            if val is not True:
                return viol("F4-scriptdone-late-false", ctx + "long after everything finished scriptDone h%d is %s" % (j, val))
    # F5: nothing of a script executes after its next scheduling point following terminate
    idx_of_push = [i for i, rc in enumerate(recs) if rc[4] == "CALLBINARY pushback"]
    for gi, ev in enumerate(G):
        if ev[0] in ("t", "st"):
            target = int(ev[3]) if ev[0] == "t" else int(ev[1])
            if target not in sid_ctx:
                continue
            tc = sid_ctx[target]
            at = idx_of_push[gi]
            issuer_ctx = recs[at][0]
            # the terminate instruction itself: the issuer's next CALLUNARY terminate after announcing it in G
            term_at = None
            for i in range(at + 1, len(recs)):
                if recs[i][0] == issuer_ctx and recs[i][4] == "CALLUNARY terminate":
                    term_at = i
                    break
            if term_at is None:
                continue        # the issuer was cut itself before it got there
            later = [i for i, rc in per_ctx_recs.get(tc, []) if i > term_at]
            if tc != issuer_ctx:
                # the target is not the one running, its next scheduling point comes before its next instruction
                if later:
                    return viol("F5-terminate-ignored", ctx + "script %d executed %d more instructions after script %d terminated it" % (target, len(later), int(ev[1])))
            else:
                if len(later) > case["slice"]:
                    return viol("F5-terminate-ignored", ctx + "script %d executed %d more instructions after terminating itself (slice %d)" % (target, len(later), case["slice"]))
    return None


# ---------------------------------------------------------------- exhaustive part (thorough tier)
def _enum_cases():
    """every configuration of <=3 scripts x <=2 steps x slice <=3 over the reduced step alphabet"""
    import itertools
    first = [["mark"], ["sleep", 0], ["sleep", 0.001], ["selfterm"]]

    def later(k):
        return first + [["terminate", k - 1], ["poll", k - 1]]

    def seqs(alpha):
        return [[a] for a in alpha] + [[a, b] for a in alpha for b in alpha]
    out = []
    for n in (1, 2, 3):
        per = [seqs(first)] + [seqs(later(k)) for k in range(1, n)]
        for combo in itertools.product(*per):
            for sl in (1, 2, 3):
                out.append(dict(scripts=[list(map(list, c)) for c in combo], slice=sl))
    return out


def _enum_shard(shard):
    from engine.driver import Env
    env = Env(ID, "thorough", 0, 200 + (os.getpid() % 1000))
    out = dict(evaluations=0, nontrivial=[], violations=[], inconclusive=0)
    try:
        for case in shard:
            try:
                res = check(case, env)
            except RunnerCrash as rc:
                try:
                    res = check(case, env)
                except RunnerCrash as rc2:
                    res = Result(nontrivial=True, labels=["crash"], violation=viol(("hang|enum" if rc2.kind == "timeout" else "crash|enum|" + sanitizer_signature(rc2.detail)), rc2.detail[-800:]))
            out["evaluations"] += 1
            if res.inconclusive:
                out["inconclusive"] += 1
            if res.nontrivial:
                out["nontrivial"].append(hashlib.sha1(json.dumps(case, sort_keys=True).encode()).hexdigest())
            if res.violation is not None:
                out["violations"].append(dict(case=case, sig=res.violation["sig"], msg=res.violation["msg"], labels=res.labels))
                if len(out["violations"]) > 20:
                    break
    finally:
        env.close()
    return out


def extra(env, tier, seed, sizes):
    if tier != "thorough":
        return None
    import multiprocessing
    todo = _enum_cases()
    nproc = sizes.get("workers", 16)
    shards = [todo[i::nproc] for i in range(nproc)]
    with multiprocessing.get_context("fork").Pool(nproc) as pool:
        results = pool.map(_enum_shard, shards)
    out = dict(evaluations=0, nontrivial=[], labels={}, violations=[], samples=[todo[0], todo[len(todo) // 2], todo[-1]], info={})
    seen = set()
    for res in results:
        out["evaluations"] += res["evaluations"]
        out["nontrivial"].extend(res["nontrivial"])
        for v in res["violations"]:
            if v["sig"] not in seen:
                seen.add(v["sig"])
                out["violations"].append(v)
    out["labels"]["enumerated_configurations"] = out["evaluations"]
    out["info"] = dict(exhaustive=dict(scripts="1..3", steps_per_script="1..2", slice="1..3",
                                       alphabet="mark, sleep 0, sleep 0.001, selfterm (+ terminate/poll of the previous script)", configurations=len(todo), executed=out["evaluations"]))
    return out
