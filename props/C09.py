"""C09 - every operator is total and memory-safe on all type-correct arguments."""
import hashlib, json, re
from hypothesis import strategies as st
from engine.driver import Result, viol
from engine.runner import RunnerCrash, sanitizer_signature

ID = "C09"
LEVEL = "exploration"
ENGINE = "E-hyp"
TECHNIQUE = "fuzzing with boundary-value pools: every registered operator signature called with type-correct arguments drawn from per-type pools and their nestings under ASan+UBSan with an allocation cap; sweep over all signatures x pools in the main process"
RULE = ("cases = (operator key from the live registry, argument expressions of the registered types) - SCALAR: negative, zero, fractional, 2^24, 1e10, +-3e38, inf, NaN; "
        "ARRAY: empty, singleton, mixed, nil element, wrong arity/types inside, nested, 1000 elements, number pairs like [200,2e9]; STRING: empty, format specifiers, "
        "64 KB; CODE: {}, {nil}, {5}, {throw 1}...; null and live OBJECT/GROUP/CONFIG/SCRIPT/NAMESPACE/SIDE/TEXT/HASHMAP values; helper types through their "
        "constructors; ANY = union; plus random nestings of pool values in arrays. Each case runs in a fresh VM (virtual clock, 200k-instruction budget, 256 MB allocation cap). "
        "non-trivial = at least one argument is not its type's ordinary representative; distinct = (operator key, argument expressions)")
LEVEL_TEXT = ("Exploration: the sweep part enumerates every registered key against the stated pools (boundary subset in quick, full product in thorough); "
              "generated nestings extend it. Held = the call completed with a value or diagnostics and the sanitizers, the allocation cap and the watchdog stayed silent.")
LEVEL_NOTE = ("Trusted: ASan/UBSan (vptr/function checks off) and max_allocation_size_mb as memory oracle, the runner's exception boundary, the 10 s watchdog. "
              "Values outside the pools are not reached; see coverage.pools.")
ASSUMPTIONS = ["callExtension is only called with non-existing library names", "exit__/exitcode__/vmctrl__ are called; the VM is discarded afterwards (fresh VM per case)"]
SIZES = {"quick": dict(budget_s=45, batch=150), "thorough": dict(budget_s=900, batch=300)}
FLOORS = {"nontrivial": 0.3}

SETUP = ('V_BIG = []; V_BIG resize 1000; {V_BIG set [_forEachIndex, _forEachIndex]} forEach V_BIG; '
         'V_LONG = "0123456789abcdef"; for "_i" from 1 to 12 do {V_LONG = V_LONG + V_LONG}; '
         'V_GRP = createGroup west; V_OBJ = "B_Soldier_F" createVehicle [0,0,0]; V_OBJ2 = V_GRP createUnit ["B_Soldier_F", [1,1,0], [], 0, "NONE"]; '
         'V_SCR = [] spawn {}; V_MAP = createHashMapFromArray [[1,2],["a",[3]]]; V_CFG = configFile >> "CfgA"; V_MRK = createMarker ["mk", [1,2]];')
CONFIG = 'class CfgA { x = 1; s = "str"; arr[] = {1,2,{3}}; class Sub { y = 2; }; class Der : Sub { z = 3; }; }; class Empty {};'

# re-created before every call: operands that the call itself may shrink, and long arrays of equal / mixed elements
PER_CALL = ('V_SHR = [1,2,3,4,5,6]; V_EQ20 = []; for "_i" from 1 to 20 do {V_EQ20 pushBack [1,2]}; '
            'V_MIX20 = []; for "_i" from 1 to 5 do {V_MIX20 append [_i, "s", [_i], true]}; ')
POOLS = {
    "SCALAR": ["1", "0", "(-1)", "0.5", "2", "5", "(-0.5)", "16777216", "1e10", "3e38", "(-3e38)", "(1e38*10)", "(sqrt -1)", "1e-38", "2147483648", "(-2147483649)", "4294967296", "1000", "100000"],
    "BOOL": ["true", "false"],
    "STRING": ['"a"', '""', '"%1"', '"%"', '"%99999999999"', '"%-1"', '"%0"', "V_LONG", '"1"', '"abc def"', '"x\ny"', '"missionNamespace"', '"<t>x</t>"', '"<t"', '"{"',
               '"CfgA"', '"mk"', '"B_Soldier_F"', '"_a"', '"1 + 1"', '"#define A A"', '"class X{};"', '"nofile.sqf"', '"%1%2%3%4%5%6%7%8%9%10%11"', '","', '"aaa,bbb"', '"ÿþ"'],
    "ARRAY": ["[1,2,3]", "[]", "[1]", '[1,"a",true]', "[nil]", "[[1,2],[3,4]]", "[[[[]]]]", "(V_BIG + [])", "[0,1e9]", "[200,2e9]", "[-1]", "[0.5]", '["a","b"]', "[objNull]", "[{},{}]", '["",0]',
              "[1,2]", "[0,0,0]", "[1e38,1e38,1e38]", "[-1,-1]", "[2,-1]", "[5,1]", '["_a","_b"]', '["_a",[1]]', "[[],[]]", "[3e38]", "[(sqrt -1)]", "[1,[2,[3,[4]]]]", '["%1",1]', '["%5"]',
              '[V_LONG]', "[true,false]", "[1,nil,3]", '[[1,"a"],[2,"b"]]', "[[1,2,3],[1,2]]", '["a",1]', "[V_OBJ]", "[west]", '["B_Soldier_F",[0,0,0],[],0,"NONE"]', "[configFile]", "[1,2,3,4,5,6,7,8,9,10]",
              # the array the CODE pool's mutators shrink while an operator iterates it; long arrays of equal / mixed elements (sort); range and format edge cases
              "V_SHR", "V_EQ20", "V_MIX20", "[1,1e10]", "[1,3e9]", "[2,2147483647]", "[1,(1e38*10)]", '["%99999999999",1]', '["%0 %-1 % %2",1]', "[V_SHR]", "[[3,1],[2,2]]", "[V_MAP,1]", "[[V_MAP],1]", '["k",[V_MAP]]'],
    "CODE": ["{}", "{nil}", "{5}", "{true}", "{false}", "{throw 1}", "{_x}", "{[]}", '{"a"}', "{_x > 1}", "{1 + \"a\"}", "{_this}", "{V_BIG resize 0}",
             "{V_SHR deleteAt 0; true}", "{V_SHR resize 0; false}", "{V_SHR deleteAt 0; _x}", "{V_SHR deleteAt 0; false}"],
    "OBJECT": ["objNull", "V_OBJ", "V_OBJ2"],
    "GROUP": ["grpNull", "V_GRP"],
    "CONFIG": ["configNull", "configFile", "V_CFG", '(configFile >> "Empty")', '(configFile >> "CfgA" >> "x")', '(configFile >> "CfgA" >> "arr")', '(configFile >> "CfgA" >> "Der")', '(configFile >> "nope")'],
    "SCRIPT": ["scriptNull", "V_SCR"],
    "NAMESPACE": ["missionNamespace", "uiNamespace", '(customNamespace__ "x")'],
    "SIDE": ["west", "east", "civilian", "sideUnknown", "sideLogic", "sideEmpty"],
    "TEXT": ['(text "a")', '(parseText "<t>x</t>")', "lineBreak", '(composeText ["a"])'],
    "HASHMAP": ["createHashMap", "V_MAP"],
    "IF": ["(if true)", "(if false)"],
    "FOR": ['(for "_i")', '(for "_i" from 0)', '(for "_i" from 0 to 1e10)', '(for "_i" from 0 to 3 step 0)', '(for "_i" from 0 to 3 step -1)'],
    "WHILE": ["(while {false})", "(while {true})", "(while {})", "(while {5})"],
    "SWITCH": ["(switch 1)", '(switch "a")'],
    "WITH": ["(with missionNamespace)"],
    "EXCEPTION": ["(try {})", "(try {throw 1})", '(try {1 + "a"})'],
    "LOCATION": ["locationNull"], "DISPLAY": ["displayNull"], "CONTROL": ["controlNull"], "TASK": ["taskNull"], "NetObject": ["netObjNull"], "NaN": ["(sqrt -1)"],
}
ANY_POOL = ["1", '"a"', "true", "[1,2]", "{}", "objNull", "grpNull", "configNull", "scriptNull", "missionNamespace", "west", "V_MAP", "[]", "0", '""', "V_OBJ", "(sqrt -1)", "[nil]"]


def _pool(t):
    if t == "ANY":
        return ANY_POOL
    return POOLS.get(t, ["1"])


def _setup_registry(env):
    if "keys" in env.cache:
        return
    r = env.runner(timeout=10.0, max_alloc_mb=256)
    r.new(vm=0, ops="full")
    reg = r.cmd(dict(op="registry", vm=0))
    rep = r.run("L = cmdsimplemented__;", vm=0, getvars=["L"], getvars_struct=True)
    impl = set()
    for e in rep["vars"]["L"]["value"]["v"]:
        parts = [x["v"] for x in e["v"]]
        if parts[0] == "n":
            impl.add(("n", parts[1]))
        elif parts[0] == "u":
            impl.add(("u", parts[1], parts[2]))
        else:
            impl.add(("b", parts[2], parts[1], parts[3]))
    keys_impl, keys_dummy = [], []
    for e in reg["nular"]:
        (keys_impl if ("n", e[0]) in impl else keys_dummy).append(["n", e[0]])
    for e in reg["unary"]:
        (keys_impl if ("u", e[0], e[1]) in impl else keys_dummy).append(["u", e[0], e[1]])
    for e in reg["binary"]:
        (keys_impl if ("b", e[0], e[1], e[2]) in impl else keys_dummy).append(["b", e[0], e[1], e[2]])
    env.cache["keys"] = sorted(keys_impl)
    env.cache["dummy"] = sorted(keys_dummy)


def _nested(draw, t):
    """an argument expression of type t: pool value or (for arrays) a nesting of pool values"""
    if t == "ARRAY" and draw(st.integers(0, 2)) == 0:
        n = draw(st.integers(0, 4))
        elems = []
        for _ in range(n):
            et = draw(st.sampled_from(["SCALAR", "SCALAR", "STRING", "ARRAY", "BOOL", "CODE", "OBJECT", "ANY", "SIDE", "CONFIG"]))
            elems.append(draw(st.sampled_from(_pool(et))))
        return "[" + ", ".join(elems) + "]"
    return draw(st.sampled_from(_pool(t)))


@st.composite
def _cases(draw, keys, dummy):
    key = draw(st.sampled_from(keys)) if (not dummy or draw(st.integers(0, 9)) > 0) else draw(st.sampled_from(dummy))
    if key[0] == "n":
        return dict(key=key, args=[])
    if key[0] == "u":
        return dict(key=key, args=[_nested(draw, key[2])])
    return dict(key=key, args=[_nested(draw, key[2]), _nested(draw, key[3])])


def strategy(env):
    _setup_registry(env)
    return _cases(env.cache["keys"], env.cache["dummy"])


def expr_of(case):
    k, a = case["key"], case["args"]
    name = k[1]
    if k[0] == "n":
        return name
    if k[0] == "u":
        return "%s %s" % (name, a[0])
    return "%s %s %s" % (a[0], name, a[1])


def _ordinary(t, e):
    p = _pool(t)
    return e == p[0]


def run_case(r, case, fresh=True):
    if fresh:
        r.new(vm=0, ops="full", virtual_clock=True, clock_delta_us=1000, max_runtime_ms=200000, mappings=[])
        r.cmd(dict(op="config_load", vm=0, text=CONFIG))
        r.run(SETUP, vm=0)
    return r.run(PER_CALL + "R = " + expr_of(case) + ";", vm=0, scheduled=bool(case.get("scheduled")))


def judge(case, rep):
    """violation dict or None for a completed reply"""
    name = case["key"][1]
    if "exception" in rep:
        return viol("exception|%s|%s" % (name, rep.get("exception_type", "?")), "a C++ exception escaped the VM: %s\ncall: %s" % (rep["exception"], expr_of(case)))
    err = rep.get("stderr", "")
    if "runtime error:" in err:
        return viol("ubsan|%s|%s" % (name, sanitizer_signature(err)), "undefined behaviour during the call\ncall: %s\n%s" % (expr_of(case), err[:1000]))
    return None


def on_crash(case, env, rc):
    name = case["key"][1]
    labs = ["crash" if rc.kind == "crash" else "hang"]
    if rc.kind == "timeout":
        return Result(nontrivial=True, labels=labs, violation=viol("hang|%s" % name, "no completion within 10 s (virtual clock budget 200k instructions)\ncall: %s" % expr_of(case)))
    sig = sanitizer_signature(rc.detail)
    return Result(nontrivial=True, labels=labs, violation=viol("crash|%s|%s" % (name, sig), "the process died during the call\ncall: %s\n%s" % (expr_of(case), rc.detail[-1500:])))


def check(case, env):
    _setup_registry(env)
    r = env.runner(timeout=10.0, max_alloc_mb=256)
    k = case["key"]
    types = k[2:] if k[0] != "n" else []
    nontrivial = any(not _ordinary(t, e) for t, e in zip(types, case["args"]))
    labs = ["kind_" + k[0]] + (["nontrivial"] if nontrivial else [])
    rep = run_case(r, case)
    if rep.get("ok") is False:
        # the call text is rejected by the parser (C01's known findings: `.` and dynamicSimulationEnabled); not an operator execution
        return Result(inconclusive=True, labels=labs + ["rejected_by_parser"])
    v = judge(case, rep)
    key = hashlib.sha1(json.dumps([k, case["args"]]).encode()).hexdigest()
    return Result(nontrivial=nontrivial, labels=labs, violation=v, key=key)


# ---------------------------------------------------------------- sweep: every key x pools (main process)

def _todo(keys, dummy, cap):
    todo = []
    for k in keys:
        if k[0] == "n":
            todo.append(dict(key=k, args=[]))
        elif k[0] == "u":
            for a in _pool(k[2])[:cap * 3]:
                todo.append(dict(key=k, args=[a]))
        else:
            for a in _pool(k[2])[:cap]:
                for b in _pool(k[3])[:cap]:
                    todo.append(dict(key=k, args=[a, b]))
    for k in dummy:
        if k[0] == "n":
            todo.append(dict(key=k, args=[]))
        elif k[0] == "u":
            todo.append(dict(key=k, args=[_pool(k[2])[0]]))
        else:
            todo.append(dict(key=k, args=[_pool(k[2])[0], _pool(k[3])[0]]))
    return todo


def _sweep_shard(shard):
    """runs in a pool process: own runner; VMs are reused for 40 calls, any problem is re-judged on a fresh VM"""
    from engine.runner import Runner

    class _E:            # minimal stand-in for on_crash
        pass
    r = Runner("asan", timeout=10.0, max_alloc_mb=256)
    r.start()
    out = dict(evaluations=0, nontrivial=[], violations=[])
    n_since_fresh = 10 ** 9
    try:
        for case in shard:
            fresh = n_since_fresh >= 40
            try:
                rep = run_case(r, case, fresh=fresh)
                n_since_fresh = 1 if fresh else n_since_fresh + 1
                v = judge(case, rep) if rep.get("ok") is not False else None
                if rep.get("exit_code") is not None or rep.get("state") not in ("empty", None):
                    n_since_fresh = 10 ** 9
            except RunnerCrash as rc:
                v = on_crash(case, None, rc).violation
                n_since_fresh = 10 ** 9
            out["evaluations"] += 1
            if v is not None and not fresh:
                try:
                    rep = run_case(r, case, fresh=True)
                    v = judge(case, rep)
                except RunnerCrash as rc:
                    v = on_crash(case, None, rc).violation
                n_since_fresh = 10 ** 9
            if v is not None:
                out["violations"].append(dict(case=case, sig=v["sig"], msg=v["msg"]))
            types = case["key"][2:] if case["key"][0] != "n" else []
            if any(not _ordinary(t, e) for t, e in zip(types, case["args"])):
                out["nontrivial"].append(hashlib.sha1(json.dumps([case["key"], case["args"]]).encode()).hexdigest())
    finally:
        r.close()
    return out


def extra(env, tier, seed, sizes):
    import multiprocessing
    _setup_registry(env)
    out = dict(evaluations=0, nontrivial=[], labels={}, violations=[], samples=[], info={})
    cap = 4 if tier == "quick" else 10 ** 6
    todo = _todo(env.cache["keys"], env.cache["dummy"], cap)
    nproc = sizes.get("workers", 16)
    shards = [todo[i::nproc] for i in range(nproc)]
    with multiprocessing.get_context("fork").Pool(nproc) as pool:
        results = pool.map(_sweep_shard, shards)
    seen = set()
    for res in results:
        out["evaluations"] += res["evaluations"]
        out["nontrivial"].extend(res["nontrivial"])
        for v in res["violations"]:
            if v["sig"] not in seen:
                seen.add(v["sig"])
                out["violations"].append(v)
    out["labels"]["sweep_calls"] = out["evaluations"]
    out["info"] = dict(sweep=dict(implemented_keys=len(env.cache["keys"]), dummy_keys=len(env.cache["dummy"]), calls=out["evaluations"],
                                  pool_cap_per_argument=(cap if tier == "quick" else "full"), exhaustive_over_stated_pools=(tier != "quick")),
                       pools={t: len(p) for t, p in POOLS.items()})
    out["samples"] = [todo[0], todo[len(todo) // 2]]
    return out
