"""C08 - arrays are shared references, copies are independent, and never cyclic."""
import json
from hypothesis import strategies as st
import math
from engine.driver import Result, viol
from engine.sqfprog import vm_value


def _ridx(x):
    return int(math.floor(x + 0.5))


def _nidx(x):
    return "%d" % x if x == int(x) else repr(float(x))

ID = "C08"
LEVEL = "exploration"
HANG_IS_VIOLATION = True     # every generated case terminates under the model: no reply (twice, then 3x confirmation) is a violation
ENGINE = "E-hyp"
TECHNIQUE = "model-based (stateful) property testing: operation histories over a heap of aliased arrays/hashmaps against a Python model that uses real object references; acyclicity observed structurally after every step"
RULE = ("cases = histories of <=25 operations over 4 array variables and 2 hashmap variables: new, alias, in-place ops (set, pushBack, "
        "pushBackUnique, append, deleteAt, deleteRange, resize, reverse, sort), copying ops (+a, a+b, a-b, select-range, apply, select-filter, +hashmap), "
        "container-in-container stores and cycle attempts through every inserting operator directly and via intermediate arrays/hashmaps; index arguments "
        "from -2..size+2; every variable is read back structurally after every step; non-trivial = a mutated container is reachable through >=2 paths, "
        "or the step is a cycle attempt, or an index is out of range; distinct = SHA-1 of the history")
LEVEL_TEXT = ("Exploration with a reference heap: after each operation all variables must render exactly as the model heap (aliases see the change, "
              "copies do not), refused operations must leave everything unchanged and emit a diagnostic, and no value may become cyclic.")
LEVEL_NOTE = ("Trusted: the Python heap model in this file (set grows with nils; negative / too large indices rejected; deleteRange [from, count] as documented; "
              "tests/sqf/deleteRange.sqf agrees), the depth-limited structural read-back in runner.cpp, Hypothesis. Fractional indices and huge sizes are C09's.")
ASSUMPTIONS = ["each operation is run as its own script so that an error-level diagnostic does not end the history",
               "deleteRange is only generated with 0 <= from < size (other shapes are C09's subject)"]
SIZES = {"quick": dict(budget_s=45, batch=60), "thorough": dict(budget_s=600, batch=150)}
FLOORS = {"nontrivial": 0.4}

NV, NH = 4, 2


class HM:
    def __init__(self):
        self.d = {}


@st.composite
def _history(draw, max_ops=25):
    n = draw(st.integers(1, max_ops))
    ops = []
    vi = st.integers(0, NV - 1)
    hi = st.integers(0, NH - 1)
    small = st.integers(0, 5)
    idx = st.integers(-2, 7)
    # an index is rounded to the nearest integer, for writing as for reading (no ties generated): -0.6 is -1 (rejected), 0.6 is 1
    fidx = st.one_of(idx, idx, idx, st.sampled_from([0.6, -0.6, 1.4, 2.6, -0.4, 0.4, 3.7]))
    val = 10
    for _ in range(n):
        k = draw(st.sampled_from(["new", "alias", "alias", "pushv", "pushv", "pushn", "pushn", "pushu", "set", "set", "setv", "append", "appendlit",
                                  "delat", "delrange", "resize", "reverse", "sort", "copy", "plus", "minus", "selr", "apply", "self",
                                  "hset", "hsetv", "hsetv", "pushh", "pushh", "hcopy"]))
        val += 1
        if k == "new":
            ops.append(["new", draw(vi), draw(st.lists(small, max_size=4))])
        elif k == "alias":
            ops.append(["alias", draw(vi), draw(vi)])
        elif k == "pushv":
            ops.append(["pushv", draw(vi), draw(vi)])
        elif k == "pushn":
            ops.append(["pushn", draw(vi), val])
        elif k == "pushu":
            ops.append(["pushu", draw(vi), draw(st.one_of(small.map(lambda x: ["n", x]), vi.map(lambda j: ["v", j])))])
        elif k == "set":
            ops.append(["set", draw(vi), draw(fidx), ["n", val]])
        elif k == "setv":
            ops.append(["set", draw(vi), draw(idx), ["v", draw(vi)]])
        elif k == "append":
            ops.append(["append", draw(vi), draw(vi)])
        elif k == "appendlit":
            ops.append(["appendlit", draw(vi), draw(vi)])
        elif k == "delat":
            ops.append(["delat", draw(vi), draw(fidx)])
        elif k == "delrange":
            ops.append(["delrange", draw(vi), draw(st.integers(0, 5)), draw(st.integers(-1, 8))])
        elif k == "resize":
            ops.append(["resize", draw(vi), draw(st.integers(-1, 7))])
        elif k == "reverse":
            ops.append(["reverse", draw(vi)])
        elif k == "sort":
            ops.append(["sort", draw(vi), draw(st.booleans())])
        elif k == "copy":
            ops.append(["copy", draw(vi), draw(vi)])
        elif k in ("plus", "minus"):
            ops.append([k, draw(vi), draw(vi), draw(vi)])
        elif k == "selr":
            ops.append(["selr", draw(vi), draw(vi), draw(st.integers(0, 5)), draw(st.integers(0, 5))])
        elif k in ("apply", "self"):
            ops.append([k, draw(vi), draw(vi)])
        elif k == "hset":
            ops.append(["hset", draw(hi), draw(st.sampled_from(["k0", "k1"])), ["n", val]])
        elif k == "hsetv":
            ops.append(["hset", draw(hi), draw(st.sampled_from(["k0", "k1"])), ["v", draw(vi)]])
        elif k == "pushh":
            ops.append(["pushh", draw(vi), draw(hi)])
        elif k == "hcopy":
            ops.append(["hcopy", draw(hi), draw(hi)])
    return dict(ops=ops)


@st.composite
def _shared(draw):
    """an array whose element is shared many times over (built by doubling: _a = [_a, _a]); legal, acyclic, small in memory"""
    return dict(shared=dict(depth=draw(st.integers(30, 60)), op=draw(st.sampled_from(["pushBack", "set", "hset", "append", "pushBackUnique_num", "cycle"]))))


def strategy(env):
    h = _history(40 if env.tier == "thorough" else 25)
    return st.one_of(h, h, h, h, h, h, h, h, h, _shared())


# ------------------------------------------------------------------ model

def via_hashmap(src, target, seen=None, through=False):
    """is target reachable from src along a path that passes through a hashmap?"""
    if seen is None:
        seen = set()
    if src is target:
        return through
    if id(src) in seen:
        return False
    if isinstance(src, list):
        seen.add(id(src))
        return any(via_hashmap(e, target, seen, through) for e in src)
    if isinstance(src, HM):
        seen.add(id(src))
        return any(via_hashmap(e, target, seen, True) for e in src.d.values())
    return False


def reaches(src, target, seen=None):
    """is `target` (container object) reachable from value `src`?"""
    if seen is None:
        seen = set()
    if src is target:
        return True
    if id(src) in seen:
        return False
    if isinstance(src, list):
        seen.add(id(src))
        return any(reaches(e, target, seen) for e in src)
    if isinstance(src, HM):
        seen.add(id(src))
        return any(reaches(e, target, seen) for e in src.d.values())
    return False


def has_nil(x, seen=None):
    if seen is None:
        seen = set()
    if x is None:
        return True
    if id(x) in seen:
        return False
    if isinstance(x, list):
        seen.add(id(x))
        return any(has_nil(e, seen) for e in x)
    if isinstance(x, HM):
        seen.add(id(x))
        return any(has_nil(e, seen) for e in x.d.values())
    return False


def deep_copy_arr(a):
    # +array copies nested arrays; hashmaps inside are shared
    return [deep_copy_arr(e) if isinstance(e, list) else e for e in a]


def deep_copy_hm(h):
    # +hashmap shares nothing with its source: arrays and hashmaps held as values are copied too
    n = HM()
    n.d = {k: (deep_copy_arr(x) if isinstance(x, list) else deep_copy_hm(x) if isinstance(x, HM) else x) for k, x in h.d.items()}
    return n


def py_eq(a, b):
    if isinstance(a, list) and isinstance(b, list):
        return len(a) == len(b) and all(py_eq(x, y) and x is not None for x, y in zip(a, b))
    if isinstance(a, HM) and isinstance(b, HM):
        return a is b or (set(a.d) == set(b.d) and all(py_eq(a.d[k], b.d[k]) for k in a.d))
    if isinstance(a, HM) or isinstance(b, HM):
        return False
    if a is None or b is None:
        return False
    return type(a) == type(b) and a == b


def paths_to(heap_vars, target):
    """number of distinct access paths (variables/slots) leading to the container"""
    n = 0
    for v in heap_vars:
        if v is target:
            n += 1
        elif reaches(v, target):
            n += 1
    return n


class Heap:
    def __init__(self):
        self.V = [[] for _ in range(NV)]
        self.H = [HM() for _ in range(NH)]

    def allvars(self):
        return self.V + self.H

    def apply(self, op):
        """returns (sqf text, refused: bool, labels)"""
        k = op[0]
        V, H = self.V, self.H
        labs = set()
        refused = False

        def val_of(x):
            return float(x[1]) if x[0] == "n" else V[x[1]]

        def val_sqf(x):
            return str(x[1]) if x[0] == "n" else "V%d" % x[1]

        if k == "new":
            V[op[1]] = [float(x) for x in op[2]]
            return "V%d = [%s];" % (op[1], ",".join(str(x) for x in op[2])), False, labs
        if k == "alias":
            V[op[1]] = V[op[2]]
            labs.add("alias")
            return "V%d = V%d;" % (op[1], op[2]), False, labs
        if k in ("pushv", "pushn", "pushu", "set", "appendlit", "append", "pushh"):
            tgt = V[op[1]]
            if paths_to(self.allvars(), tgt) >= 2:
                labs.add("mutate_shared")
        if k == "pushv":
            x = V[op[2]]
            if reaches(x, V[op[1]]):
                labs.add("cycle_attempt"); refused = True
                if via_hashmap(x, V[op[1]]):
                    labs.add("cycle_via_hashmap")
            else:
                V[op[1]].append(x)
            return "V%d pushBack V%d;" % (op[1], op[2]), refused, labs
        if k == "pushn":
            V[op[1]].append(float(op[2]))
            return "V%d pushBack %d;" % (op[1], op[2]), False, labs
        if k == "pushu":
            x = val_of(op[2])
            if has_nil(V[op[1]]) or has_nil(x):
                return None, False, labs          # equality of nil elements is not defined by the property
            if isinstance(x, list) and reaches(x, V[op[1]]):
                if not any(py_eq(e, x) for e in V[op[1]]):
                    labs.add("cycle_attempt"); refused = True
                    if via_hashmap(x, V[op[1]]):
                        labs.add("cycle_via_hashmap")
            elif not any(py_eq(e, x) for e in V[op[1]]):
                V[op[1]].append(x)
            return "V%d pushBackUnique %s;" % (op[1], val_sqf(op[2])), refused, labs
        if k == "set":
            a, i, x = V[op[1]], _ridx(op[2]), val_of(op[3])
            if i != op[2]:
                labs.add("fractional_index")
            if i < 0:
                labs.add("index_out_of_range"); refused = True
            elif isinstance(x, list) and reaches(x, a):
                labs.add("cycle_attempt"); refused = True
                if via_hashmap(x, a):
                    labs.add("cycle_via_hashmap")
            else:
                if i >= len(a):
                    labs.add("set_grows")
                    a.extend([None] * (i + 1 - len(a)))
                a[i] = x
            return "V%d set [%s, %s];" % (op[1], _nidx(op[2]), val_sqf(op[3])), refused, labs
        if k == "append":
            a, b = V[op[1]], V[op[2]]
            if any(isinstance(e, (list, HM)) and reaches(e, a) for e in b):
                labs.add("cycle_attempt"); refused = True
                if any(isinstance(e, HM) or via_hashmap(e, a) for e in b if isinstance(e, (list, HM)) and reaches(e, a)):
                    labs.add("cycle_via_hashmap")
            else:
                a.extend(list(b))
            return "V%d append V%d;" % (op[1], op[2]), refused, labs
        if k == "appendlit":
            a, x = V[op[1]], V[op[2]]
            if reaches(x, a):
                labs.add("cycle_attempt"); refused = True
                if via_hashmap(x, a):
                    labs.add("cycle_via_hashmap")
            else:
                a.append(x)
            return "V%d append [V%d];" % (op[1], op[2]), refused, labs
        if k == "pushh":
            a, h = V[op[1]], H[op[2]]
            if reaches(h, a):
                labs.add("cycle_attempt"); labs.add("cycle_via_hashmap"); refused = True
            else:
                a.append(h)
            return "V%d pushBack H%d;" % (op[1], op[2]), refused, labs
        if k == "hset":
            h, x = H[op[1]], val_of(op[3])
            if isinstance(x, list) and reaches(x, h):
                labs.add("cycle_attempt"); labs.add("cycle_via_hashmap"); refused = True
            else:
                h.d[op[2]] = x
            if paths_to(self.allvars(), h) >= 2:
                labs.add("mutate_shared")
            return 'H%d set ["%s", %s];' % (op[1], op[2], val_sqf(op[3])), refused, labs
        if k == "hcopy":
            H[op[1]] = deep_copy_hm(H[op[2]])
            return "H%d = +H%d;" % (op[1], op[2]), False, labs
        if k == "delat":
            a, i = V[op[1]], _ridx(op[2])
            if i != op[2]:
                labs.add("fractional_index")
            if paths_to(self.allvars(), a) >= 2:
                labs.add("mutate_shared")
            if i < 0 or i >= len(a):
                labs.add("index_out_of_range"); refused = True
            else:
                del a[i]
            return "V%d deleteAt %s;" % (op[1], _nidx(op[2])), refused, labs
        if k == "delrange":
            a, f, t = V[op[1]], op[2], op[3]
            if not (0 <= f < len(a)):
                return None, False, labs          # shape not generated (C09)
            if paths_to(self.allvars(), a) >= 2:
                labs.add("mutate_shared")
            # array deleteRange [from, count] (BIKI); a negative count is rejected like a negative index
            if t < 0:
                labs.add("index_out_of_range")
                return "V%d deleteRange [%d, %d];" % (op[1], op[2], op[3]), True, labs
            del a[f:f + t]
            return "V%d deleteRange [%d, %d];" % (op[1], op[2], op[3]), False, labs
        if k == "resize":
            a, n = V[op[1]], op[2]
            if paths_to(self.allvars(), a) >= 2:
                labs.add("mutate_shared")
            if n < 0:
                labs.add("index_out_of_range"); refused = True
            elif n <= len(a):
                del a[n:]
            else:
                a.extend([None] * (n - len(a)))
            return "V%d resize %d;" % (op[1], n), refused, labs
        if k == "reverse":
            a = V[op[1]]
            if paths_to(self.allvars(), a) >= 2:
                labs.add("mutate_shared")
            a.reverse()
            return "reverse V%d;" % op[1], False, labs
        if k == "sort":
            a = V[op[1]]
            if not all(isinstance(e, float) for e in a):
                return None, False, labs          # only numeric arrays are sorted here
            if paths_to(self.allvars(), a) >= 2:
                labs.add("mutate_shared")
            a.sort(reverse=not op[2])
            return "V%d sort %s;" % (op[1], "true" if op[2] else "false"), False, labs
        if k == "copy":
            V[op[1]] = deep_copy_arr(V[op[2]])
            labs.add("copy")
            return "V%d = +V%d;" % (op[1], op[2]), False, labs
        if k == "plus":
            V[op[1]] = list(V[op[2]]) + list(V[op[3]])
            labs.add("copy")
            return "V%d = V%d + V%d;" % (op[1], op[2], op[3]), False, labs
        if k == "minus":
            if has_nil(V[op[2]]) or has_nil(V[op[3]]):
                return None, False, labs          # equality of nil elements is not defined by the property
            b = V[op[3]]
            V[op[1]] = [e for e in V[op[2]] if not any(py_eq(e, y) for y in b)]
            labs.add("copy")
            return "V%d = V%d - V%d;" % (op[1], op[2], op[3]), False, labs
        if k == "selr":
            a, s, n = V[op[2]], op[3], op[4]
            if s > len(a):
                return None, False, labs
            V[op[1]] = list(a[s:s + n])
            labs.add("copy")
            return "V%d = V%d select [%d, %d];" % (op[1], op[2], s, n), False, labs
        if k == "apply":
            if any(e is None for e in V[op[2]]):
                return None, False, labs          # apply {_x} on nil elements raises; not this property's subject
            V[op[1]] = list(V[op[2]])
            labs.add("copy")
            return "V%d = V%d apply {_x};" % (op[1], op[2]), False, labs
        if k == "self":
            V[op[1]] = list(V[op[2]])
            labs.add("copy")
            return "V%d = V%d select {true};" % (op[1], op[2]), False, labs
        raise ValueError(op)


def render(x, depth=0):
    if depth > 30:
        return "<deep>"
    if isinstance(x, list):
        return [render(e, depth + 1) for e in x]
    if isinstance(x, HM):
        return {"map": sorted([[k, render(v, depth + 1)] for k, v in x.d.items()], key=lambda p: p[0])}
    return x


def vm_render(j):
    if j.get("deep"):
        return "<deep>"
    t = j["t"]
    if t == "nil":
        return None
    if t == "SCALAR":
        return float(j["v"])
    if t == "ARRAY":
        return [vm_render(e) for e in j["v"]]
    if t == "HASHMAP":
        return {"map": sorted([[vm_render(k), vm_render(v)] for k, v in j["v"]], key=lambda p: p[0])}
    if t in ("STRING", "BOOL"):
        return j["v"]
    return ("OTHER", t)


def has_deep(x):
    if x == "<deep>":
        return True
    if isinstance(x, list):
        return any(has_deep(e) for e in x)
    if isinstance(x, dict):
        return any(has_deep(v) for _k, v in x["map"])
    return False


NAMES = ["V%d" % i for i in range(NV)] + ["H%d" % i for i in range(NH)]


def hang_labels(case):
    """labels of a case computed from the model alone (used when the VM never answers: a cycle built through a hashmap is the known finding)"""
    if "shared" in case:
        return ["shared_many_times"]
    heap = Heap()
    labs = set()
    for op in case["ops"]:
        try:
            _t, _r, l = heap.apply(op)
        except Exception:
            break
        labs |= l
    return sorted(labs)


def _check_shared(case, env):
    """the cycle test of an insertion looks at every container once: a value shared 2^depth times is inserted as quickly as any other"""
    c = case["shared"]
    r = env.runner()
    r.new(vm=0, ops="full")
    d = c["depth"]
    pre = "D = [1]; for \"_i\" from 1 to %d do { D = [D, D] }; W = [0]; H = createHashMap; R = [];" % d
    op = {"pushBack": "R pushBack (W pushBack D); R pushBack (count W);",
          "set": "W set [2, D]; R pushBack (count W);",
          "hset": "H set [\"k\", D]; R pushBack (count H);",
          "append": "W append [D, D]; R pushBack (count W);",
          "pushBackUnique_num": "R pushBack (D pushBackUnique 7); R pushBack (count D);",
          "cycle": "private _inner = D; while {count _inner == 2} do { _inner = _inner select 0 }; R pushBack (_inner pushBack D); R pushBack (count _inner);"}[c["op"]]
    # (the refused insertion is an error: the script ends there, nothing is recorded)
    exp = {"pushBack": [1.0, 2.0], "set": [3.0], "hset": [1.0], "append": [3.0], "pushBackUnique_num": [2.0, 3.0], "cycle": []}[c["op"]]
    rep = r.run(pre + " " + op, vm=0, getvars=["R"], getvars_struct=True, timeout=20.0)
    got = vm_value(rep["vars"]["R"]["value"]) if "R" in rep.get("vars", {}) else None
    v = None
    if got != exp or (c["op"] == "cycle" and not [l for l in rep.get("logs", []) if "recursion" in l["m"].lower()]):
        v = viol("shared-many-times|" + c["op"], "%s %s\nR = %s, expected %s\nlogs: %s" % (pre, op, got, exp, [l["m"][:90] for l in rep.get("logs", [])[:3]]))
    return Result(nontrivial=True, labels=["shared_many_times", "nontrivial"] + (["cycle_attempt"] if c["op"] == "cycle" else []), violation=v)


def check(case, env):
    if "shared" in case:
        return _check_shared(case, env)
    r = env.runner()
    r.new(vm=0, ops="full")
    r.run("; ".join(["V%d = []" % i for i in range(NV)] + ["H%d = createHashMap" % i for i in range(NH)]) + ";", vm=0)
    heap = Heap()
    labs = set()
    v = None
    done = []
    for step, op in enumerate(case["ops"]):
        text, refused, l = heap.apply(op)
        if text is None:
            continue
        labs |= l
        done.append(text)
        rep = r.run(text, vm=0, getvars=NAMES, getvars_struct=True)
        diags = [x for x in rep.get("logs", []) if x["l"] <= 2]
        got = [vm_render(rep["vars"][n]["value"]) if n in rep.get("vars", {}) else "<missing>" for n in NAMES]
        exp = [render(x) for x in heap.allvars()]
        ctx = "history so far:\n  " + "\n  ".join(done) + "\n"
        if any(has_deep(g) for g in got):
            v = viol("cyclic|" + op[0] + ("|via-hashmap" if "cycle_via_hashmap" in l else ""), ctx + "after this step a container contains itself (structural read-back exceeded depth 40)")
            break
        if got != exp:
            kind = "refused-not-unchanged" if refused else ("alias" if "mutate_shared" in l else "plain")
            v = viol("heap-mismatch|%s|%s" % (kind, op[0]), ctx + "heap differs from the model after step %d\nexpected: %s\nvm:       %s" % (
                step, json.dumps(dict(zip(NAMES, exp))), json.dumps(dict(zip(NAMES, got)))))
            break
        if refused and not diags:
            v = viol("refused-silently|" + op[0], ctx + "the operation must be refused with a diagnostic, none was emitted")
            break
    # printing, comparing and copying terminate (cheap final probe; a hang/crash is caught by the runner)
    if v is None:
        rep = r.run("Z = [str [V0,V1,V2,V3,H0,H1], +[V0,V1,V2,V3], [V0,V1] isEqualTo [V2,V3]];", vm=0)
    nontrivial = bool(labs & {"mutate_shared", "cycle_attempt", "index_out_of_range"})
    if nontrivial:
        labs.add("nontrivial")
    return Result(nontrivial=nontrivial, labels=sorted(labs), violation=v)
