"""C17 - PBO archives are read faithfully; damaged ones are rejected safely."""
import hashlib, os, struct
from hypothesis import strategies as st
from engine.driver import Result, viol
from engine.runner import RunnerCrash, sanitizer_signature

ID = "C17"
LEVEL = "fault_enumeration"
ENGINE = "E-hyp"
TECHNIQUE = "fault injection over archives from an independent packer: generated file sets packed in Python, then every truncation point / length-field corruption / byte flip / missing terminator / absent and empty file; oracle = faithful listing and bytes for intact archives, good()==false or only intact entries for damaged ones, sanitizers silent, allocation cap, scratch directory unchanged; exhaustive enumeration of every truncation point and every (size field x value) of fixed archives (plus every byte flip in the thorough tier); coverage-guided libFuzzer target (runner/fuzz_pbo.cpp, invariants inside the target) whose artifacts are replayed as raw archives against a Python reference parser"
RULE = ("cases = archive (0-8 properties, 0-10 entries with names containing backslashes/spaces/high bytes, names and property values of 120-1100 bytes around the 256/512-byte boundaries, empty and binary contents <= 4 KB, optional checksum trailer) "
        "x fault in {none, truncate at offset, set a 32-bit size/length field to 0/1/size+-1/2^31-1/2^32-1, flip one byte, drop the property or header terminator, absent file, "
        "zero-length file}; the quick tier samples faults, the thorough tier also enumerates every truncation point of small archives; non-trivial = a well-formed archive with "
        ">=2 entries including an empty one, or any fault case; distinct = SHA-1 of the case")
LEVEL_TEXT = ("Fault enumeration: for intact archives the reader must report exactly the stored properties and entries and return every entry's bytes unchanged, also through the "
              "virtual file system under the PBO prefix; for every injected fault loading must fail or expose only entries whose bytes are intact, without sanitizer reports, "
              "oversized allocations or changes to the directory.")
LEVEL_NOTE = ("Trusted: the Python packer in this file (written from the format description: version entry, properties, 20-byte entry records, data, optional trailer), "
              "ASan/UBSan and max_allocation_size_mb=64, SHA-1 of the scratch directory before/after. Compressed entries are not generated.")
ASSUMPTIONS = ["entries are stored uncompressed", "the archive file is private to the case"]
SIZES = {"quick": dict(budget_s=40, batch=100, fuzz_s=20), "thorough": dict(budget_s=480, batch=200, fuzz_s=420)}
FLOORS = {"nontrivial": 0.6, "string_256_or_longer": 0.1}


def pack(props, entries, trailer, header=True):
    out = bytearray()
    if header:
        out += b"\0" + b"sreV" + b"\0" * 16
        for k, v in props:
            out += k.encode("latin-1") + b"\0" + v.encode("latin-1") + b"\0"
        out += b"\0"
    # (header=False: an archive without the version header and thus without properties - the first record is an entry)
    fields = []            # offsets of 32-bit fields (for corruption)
    for name, data in entries:
        out += name.encode("latin-1") + b"\0"
        base = len(out)
        out += struct.pack("<IIIII", 0, len(data), 0, 0, len(data))
        fields += [base + 4, base + 16]
    term_at = len(out)
    out += b"\0" + b"\0" * 20
    for _name, data in entries:
        out += data
    if trailer:
        out += b"\0" + hashlib.sha1(bytes(out)).digest()
    return bytes(out), fields, term_at


_name = st.lists(st.sampled_from(list("abcxyz019_ .") + ["\\", "\\", "/", "\xe4", "\xff"]), min_size=1, max_size=12).map("".join).filter(lambda s: s.strip(" .\\") and not s.startswith("?"))
# strings longer than the reader's 256-byte chunk: directory segments of <= 60 characters up to a total around the chunk boundaries
_LONG = st.builds(lambda n, c, i: "\\".join([(c * 50 + str(i))] * 30)[:n].rstrip("\\ ."), st.sampled_from([120, 254, 255, 256, 257, 258, 300, 511, 512, 513, 700, 1100]), st.sampled_from("abxyz"), st.integers(0, 9))
_name_any = st.one_of(*([_name] * 19 + [_LONG]))
_data = st.one_of(st.just(b""), st.binary(max_size=64), st.binary(min_size=200, max_size=4096), st.sampled_from([b"x = 1;\n", b"class A {};\n", b"\0\0\0", b"#include \"a\"\n"]))


@st.composite
def _cases(draw):
    nprops = draw(st.integers(0, 4))
    props = [("prefix", draw(st.sampled_from(["x\\addons\\main", "pre", "a\\b", "z"])))] + [(draw(st.sampled_from(["version", "author", "k1", "k2", "pboprefix2"])), draw(st.one_of(*([st.sampled_from(["1", "", "some value", "a\\b"])] * 9 + [_LONG])))) for _ in range(nprops)]
    if draw(st.integers(0, 5)) == 0:
        props = props[1:]
    names = draw(st.lists(_name_any, min_size=0, max_size=10, unique_by=lambda s: s.lower().replace("/", "\\")))
    entries = [(n, draw(_data)) for n in names]
    trailer = draw(st.booleans())
    noheader = draw(st.integers(0, 7)) == 0 and len(names) > 0
    if noheader:
        props = []            # no version header, no properties
    fault = draw(st.sampled_from(["none", "none", "truncate", "truncate", "truncate", "field", "field", "flip", "flip", "noterm_props", "noterm_headers", "absent", "empty"]))
    case = dict(props=[list(p) for p in props], entries=[[n, d.decode("latin-1")] for n, d in entries], trailer=trailer, fault=fault)
    if noheader:
        case["noheader"] = True
        if fault in ("noterm_props",):
            case["fault"] = fault = "none"
    blob, fields, term_at = pack(props, entries, trailer, header=not noheader)
    if fault == "truncate":
        case["at"] = draw(st.integers(0, max(0, len(blob) - 1)))
    elif fault == "field":
        if not fields:
            case["fault"] = "truncate"
            case["at"] = draw(st.integers(0, max(0, len(blob) - 1)))
        else:
            case["field"] = draw(st.integers(0, len(fields) - 1))
            case["value"] = draw(st.sampled_from(["0", "1", "minus1", "plus1", "2^31-1", "2^32-1", "filesize", "big"]))
    elif fault == "flip":
        case["at"] = draw(st.integers(0, max(0, len(blob) - 1)))
        case["xor"] = draw(st.sampled_from([1, 0x80, 0xFF, 0x20]))
    return case


def strategy(env):
    return _cases()


def _dir_state(d):
    out = {}
    for root, _dirs, files in os.walk(d):
        for f in files:
            p = os.path.join(root, f)
            with open(p, "rb") as fh:
                out[os.path.relpath(p, d)] = hashlib.sha1(fh.read()).hexdigest()
    return out


def build(case):
    props = [tuple(p) for p in case["props"]]
    entries = [(n, d.encode("latin-1")) for n, d in case["entries"]]
    blob, fields, term_at = pack(props, entries, case["trailer"], header=not case.get("noheader"))
    f = case["fault"]
    if f == "truncate":
        blob = blob[:case["at"]]
    elif f == "field":
        off = fields[case["field"]]
        cur = struct.unpack_from("<I", blob, off)[0]
        val = {"0": 0, "1": 1, "minus1": (cur - 1) & 0xFFFFFFFF, "plus1": cur + 1, "2^31-1": 2 ** 31 - 1, "2^32-1": 2 ** 32 - 1, "filesize": len(blob), "big": 300 * 1024 * 1024}[case["value"]]
        blob = blob[:off] + struct.pack("<I", val & 0xFFFFFFFF) + blob[off + 4:]
    elif f == "flip":
        if blob:
            at = min(case["at"], len(blob) - 1)
            blob = blob[:at] + bytes([blob[at] ^ case["xor"]]) + blob[at + 1:]
    elif f == "noterm_props":
        # drop the terminator of the property list
        pos = 21 + sum(len(k) + len(v) + 2 for k, v in props)
        blob = blob[:pos] + blob[pos + 1:]
    elif f == "noterm_headers":
        blob = blob[:term_at] + blob[term_at + 21:]
    elif f == "empty":
        blob = b""
    return blob, props, entries


def ref_parse(blob):
    """reference parser for the layout pack() writes; None unless the bytes are a well-formed archive of that layout"""
    if len(blob) < 21 or blob[:21] != b"\0sreV" + b"\0" * 16:
        return None
    pos = 21
    props = []
    while True:
        e = blob.find(b"\0", pos)
        if e < 0:
            return None
        k = blob[pos:e]
        pos = e + 1
        if not k:
            break
        e = blob.find(b"\0", pos)
        if e < 0:
            return None
        props.append((k.decode("latin-1"), blob[pos:e].decode("latin-1")))
        pos = e + 1
    heads = []
    while True:
        e = blob.find(b"\0", pos)
        if e < 0 or e + 21 > len(blob):
            return None
        name = blob[pos:e]
        packing, orig, _res, _ts, size = struct.unpack_from("<IIIII", blob, e + 1)
        pos = e + 21
        if not name:
            if (packing, orig, size) != (0, 0, 0):
                return None
            break
        if packing != 0:
            return None          # compressed entries are outside the reference layout
        heads.append((name.decode("latin-1"), size))
    entries = []
    for name, size in heads:
        if pos + size > len(blob):
            return None
        entries.append((name, blob[pos:pos + size]))
        pos += size
    rest = blob[pos:]
    if rest and not (len(rest) == 21 and rest[:1] == b"\0"):
        return None              # only an optional checksum trailer may follow
    if len({n.lower() for n, _d in entries}) != len(entries) or len({k for k, _v in props}) != len(props):
        return None              # duplicate names: which one is meant is not defined by the layout
    return props, entries


def check_raw(case, env):
    """arbitrary bytes (libFuzzer artifacts, mutated archives): totality + exactness whenever the reference parser accepts them"""
    d = os.path.join(env.scratch_dir(), "c17")
    os.makedirs(d, exist_ok=True)
    for old in os.listdir(d):
        os.unlink(os.path.join(d, old))
    blob = case["raw"].encode("latin-1")
    path = os.path.join(d, "test.pbo")
    with open(path, "wb") as fh:
        fh.write(blob)
    before = _dir_state(d)
    ref = ref_parse(blob)
    labs = {"raw", "raw_wellformed" if ref else "raw_malformed", "nontrivial"}
    ctx = "raw archive of %d bytes (%s by the reference parser): %r\n" % (len(blob), "well-formed" if ref else "malformed", blob[:120])
    r = env.runner(timeout=15.0, max_alloc_mb=64)
    v = None
    try:
        listing = r.cmd(dict(op="pbo", path=path, read=True, max_read=1 << 22))
        if "exception" in listing:
            v = viol("raw|exception|" + listing.get("exception_type", "?"), ctx + "an exception escaped the reader: %s" % listing["exception"])
        elif listing.get("stderr") and "runtime error:" in listing["stderr"]:
            v = viol("raw|ubsan|" + sanitizer_signature(listing["stderr"]), ctx + listing["stderr"][:800])
        elif listing.get("good"):
            total = 0
            seen_names = set()
            for e in listing["files"]:
                if e.get("too_big") or e["size"] > len(blob):
                    v = viol("raw|size-from-header", ctx + "entry %r claims %d bytes in a %d byte file" % (e["name"], e.get("too_big") or e["size"], len(blob)))
                    break
                if e["name"].lower() not in seen_names:       # entries are read by name: a duplicate name reads the same bytes again
                    total += len(e.get("data") or "")
                seen_names.add(e["name"].lower())
            if v is None and total > len(blob):
                v = viol("raw|more-bytes-than-file", ctx + "the entries yield %d bytes, the file has %d" % (total, len(blob)))
            if v is None and ref:
                props, entries = ref
                got_attrs = [(a[0], a[1]) for a in listing["attrs"]]
                got = [(e["name"], (e.get("data") or "").encode("latin-1")) for e in listing["files"]]
                if got_attrs != props:
                    v = viol("raw|attributes", ctx + "properties reported %s, stored %s" % (got_attrs[:4], props[:4]))
                elif got != entries:
                    v = viol("raw|entries", ctx + "entries reported %s, stored %s" % ([(n, len(x)) for n, x in got[:5]], [(n, len(x)) for n, x in entries[:5]]))
        elif ref:
            v = viol("raw|wellformed-rejected", ctx + "the reference parser accepts the archive (%d properties, %d entries), the reader rejects it" % (len(ref[0]), len(ref[1])))
    except RunnerCrash as rc:
        if rc.kind == "timeout":
            v = viol("raw|hang", ctx + "the reader did not return within 15 s")
        else:
            v = viol("raw|crash|%s" % sanitizer_signature(rc.detail), ctx + "the reader crashed:\n" + rc.detail[-1200:])
    if v is None and _dir_state(d) != before:
        v = viol("raw|filesystem-modified", ctx + "loading created or modified files")
    return Result(nontrivial=True, labels=sorted(labs), violation=v)


ENUM_ARCHIVES = [
    dict(props=[["prefix", "x\\a"]], entries=[["a.sqf", "x = 1;"], ["b\\c.txt", ""]], trailer=False),
    dict(props=[["prefix", "p"], ["version", "1"]], entries=[["n%d" % i, chr(65 + i) * (i * 5)] for i in range(4)], trailer=True),
    dict(props=[], entries=[["only", "0123456789"]], trailer=True),
]


def _enumerate_faults(env, tier):
    """fault enumeration proper: every truncation point and every (32-bit field x value) of fixed archives"""
    out = dict(evaluations=0, nontrivial=[], labels={}, violations=[])
    archives = ENUM_ARCHIVES if tier == "thorough" else ENUM_ARCHIVES[:1]
    for arch in archives:
        blob, fields, _t = pack([tuple(p) for p in arch["props"]], [(n, d.encode("latin-1")) for n, d in arch["entries"]], arch["trailer"])
        cases = [dict(arch, fault="truncate", at=i) for i in range(len(blob))]
        cases += [dict(arch, fault="field", field=f, value=v) for f in range(len(fields)) for v in ["0", "1", "minus1", "plus1", "2^31-1", "2^32-1", "filesize", "big"]]
        if tier == "thorough":
            cases += [dict(arch, fault="flip", at=i, xor=x) for i in range(len(blob)) for x in (1, 0x80, 0xFF)]
        for case in cases:
            try:
                r = check(case, env)
            except RunnerCrash as rc:
                r = Result(nontrivial=True, labels=["crash"], violation=viol("crash|%s|%s" % (case["fault"], sanitizer_signature(rc.detail)), rc.detail[-1000:]))
            out["evaluations"] += 1
            out["nontrivial"].append(hashlib.sha1(repr(sorted(case.items())).encode()).hexdigest())
            out["labels"]["enumerated_faults"] = out["labels"].get("enumerated_faults", 0) + 1
            if r.violation is not None:
                out["violations"].append(dict(case=case, sig=r.violation["sig"], msg=r.violation["msg"], labels=r.labels))
    return out


def extra(env, tier, seed, sizes):
    """(1) exhaustive fault enumeration over fixed archives; (2) coverage-guided part (E-fuzz): libFuzzer on the reader with the
    invariants inside the target; every artifact is replayed as a raw case"""
    from engine import fuzz
    enum = _enumerate_faults(env, tier)
    secs = sizes.get("fuzz_s", 0)
    if not secs:
        enum["info"] = dict(enumerated_faults=enum["evaluations"])
        enum["samples"] = []
        return enum
    seeds = [pack([("prefix", "x\\a")], [("a.sqf", b"x = 1;"), ("b\\c.txt", b"")], False)[0], pack([], [], True)[0],
             pack([("prefix", "p"), ("version", "1")], [("n%d" % i, bytes([i]) * (i * 7)) for i in range(6)], True)[0]]
    res = fuzz.campaign("fuzz_pbo", secs, seed, seeds, os.path.join(env.scratch_dir(), "fuzz_pbo"), max_len=2048, timeout_s=10)
    out = dict(evaluations=0, nontrivial=[], labels={"libfuzzer_execs": res["execs"], "libfuzzer_artifacts": len(res["artifacts"])}, violations=[], samples=[],
               info=dict(libfuzzer=dict(target="fuzz_pbo", execs=res["execs"], cov=res["cov"], wall_s=res["wall_s"], artifacts=len(res["artifacts"]))))
    seen = set()
    for kind, data in res["artifacts"]:
        if kind not in ("crash", "timeout", "leak") or data in seen or len(seen) >= 200:
            continue
        seen.add(data)
        case = dict(raw=data.decode("latin-1"))
        r = check_raw(case, env)
        out["evaluations"] += 1
        out["nontrivial"].append(hashlib.sha1(data).hexdigest())
        for l in r.labels:
            out["labels"][l] = out["labels"].get(l, 0) + 1
        if r.violation is not None:
            out["violations"].append(dict(case=case, sig=r.violation["sig"], msg=r.violation["msg"], labels=r.labels))
        else:
            out["labels"]["artifact_not_reproduced_in_runner"] = out["labels"].get("artifact_not_reproduced_in_runner", 0) + 1
    out["evaluations"] += enum["evaluations"]
    out["nontrivial"] += enum["nontrivial"]
    out["violations"] += enum["violations"]
    for k_, v_ in enum["labels"].items():
        out["labels"][k_] = out["labels"].get(k_, 0) + v_
    out["info"]["enumerated_faults"] = enum["evaluations"]
    return out


def check(case, env):
    if "raw" in case:
        return check_raw(case, env)
    d = os.path.join(env.scratch_dir(), "c17")
    os.makedirs(d, exist_ok=True)
    for old in os.listdir(d):
        os.unlink(os.path.join(d, old))
    blob, props, entries = build(case)
    path = os.path.join(d, "test.pbo")
    f = case["fault"]
    if f != "absent":
        with open(path, "wb") as fh:
            fh.write(blob)
    before = _dir_state(d)
    labs = {"fault_" + f}
    long_string = any(len(n) >= 256 for n, _d in entries) or any(len(k) >= 256 or len(val) >= 256 for k, val in props)
    if long_string:
        labs.add("string_256_or_longer")
    nontrivial = f != "none" or long_string or (len(entries) >= 2 and any(len(dt) == 0 for _n, dt in entries))
    if nontrivial:
        labs.add("nontrivial")
    r = env.runner(timeout=15.0, max_alloc_mb=64)
    ctx = "archive: %d properties %s, entries %s, trailer=%s, fault=%s %s (%d bytes on disk)\n" % (
        len(props), props, [(n, len(dt)) for n, dt in entries], case["trailer"], f, {k: case[k] for k in ("at", "field", "value", "xor") if k in case}, len(blob))
    v = None
    try:
        r.new(vm=0, ops="none")
        if f == "absent":
            rep = r.cmd(dict(op="pbo_mount", vm=0, path=path))
            listing = dict(good=False, attrs=[], files=[])
        else:
            listing = r.cmd(dict(op="pbo", path=path, read=True, max_read=8 * 1024 * 1024))
            rep = r.cmd(dict(op="pbo_mount", vm=0, path=path))
        if "exception" in listing or "exception" in rep:
            v = viol("exception|" + f, ctx + "a C++ exception escaped the reader: %s" % (listing.get("exception") or rep.get("exception")))
        err = (listing.get("stderr") or "") + (rep.get("stderr") or "")
        if v is None and "runtime error:" in err:
            v = viol("ubsan|%s|%s" % (f, sanitizer_signature(err)), ctx + "undefined behaviour in the reader:\n" + err[:800])
        orig = dict(entries)
        if v is None and f in ("none",):
            if not listing.get("good"):
                v = viol("intact-rejected", ctx + "a well-formed archive was rejected")
            else:
                got_attrs = [tuple(a) for a in listing["attrs"]]
                got_files = [(e["name"], e["size"]) for e in listing["files"]]
                if got_attrs != [(k, val) for k, val in props]:
                    v = viol("attributes", ctx + "properties reported %s, stored %s" % (got_attrs, props))
                elif got_files != [(n, len(dt)) for n, dt in entries]:
                    v = viol("entry-list", ctx + "entries reported %s, stored %s" % (got_files, [(n, len(dt)) for n, dt in entries]))
                else:
                    for e in listing["files"]:
                        if e.get("data") is None or e["data"].encode("latin-1") != orig[e["name"]]:
                            v = viol("entry-bytes", ctx + "entry %r: bytes differ from what was packed (%d vs %d bytes)" % (e["name"], len(e.get("data") or ""), len(orig[e["name"]])))
                            break
                # through the virtual file system under the prefix
                prefix = dict(props).get("prefix")
                if v is None and prefix:
                    for n, dt in entries:
                        vp = "/" + (prefix + "\\" + n).replace("\\", "/")
                        if "//" in vp or vp.endswith("/") or "/./" in vp or " /" in vp or "/ " in vp or vp.endswith(".") or vp.endswith(" ") or "/../" in vp or "./" in vp:
                            continue     # names that are not canonical path segments are not addressed through the VFS here
                        rr = r.cmd(dict(op="vfs", vm=0, path=vp, read=True))
                        if not rr.get("found") or rr.get("data", "").encode("latin-1") != dt:
                            v = viol("vfs-read", ctx + "entry %r read through the virtual file system as %r: found=%s, %d bytes (expected %d)" % (n, vp, rr.get("found"), len(rr.get("data") or ""), len(dt)))
                            break
        elif v is None:
            # damaged / absent: loading fails, or only intact entries are exposed
            if listing.get("good"):
                for e in listing["files"]:
                    if e.get("too_big"):
                        v = viol("size-from-header|" + f, ctx + "entry %r claims %d bytes in a %d byte file" % (e["name"], e["too_big"], len(blob)))
                        break
                    if e.get("data") is None:
                        continue
                    data = e["data"].encode("latin-1")
                    if e["name"] not in orig or data != orig[e["name"]]:
                        if f in ("flip", "field", "noterm_headers", "noterm_props"):
                            # the archive is still structurally consistent: without redundancy the damage cannot be noticed.
                            # With a checksum trailer it could be - the reader never verifies it (known finding).
                            if not case["trailer"]:
                                continue
                            labs.add("corrupt_but_consistent_with_trailer")
                            v = viol("checksum-not-verified|" + f, ctx + "the archive carries a checksum trailer, yet the damaged archive is accepted and exposes entry %r with %d bytes that are not the stored content" % (e["name"], len(data)))
                            break
                        v = viol("damaged-exposes-garbage|" + f, ctx + "the damaged archive is accepted and exposes entry %r with %d bytes that are not the stored content" % (e["name"], len(data)))
                        break
    except RunnerCrash as rc:
        if rc.kind == "timeout":
            v = viol("hang|" + f, ctx + "the reader did not return within 15 s")
        else:
            v = viol("crash|%s|%s" % (f, sanitizer_signature(rc.detail)), ctx + "the reader crashed:\n" + rc.detail[-1200:])
    after = _dir_state(d)
    if v is None and after != before:
        changed = sorted(set(after.items()) ^ set(before.items()))
        v = viol("filesystem-modified|" + f, ctx + "loading created or modified files: %s" % changed[:4])
    return Result(nontrivial=nontrivial, labels=sorted(labs), violation=v)
