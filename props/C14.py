"""C14 - diagnostics name the true source file and line (and column) of the culprit."""
import os, re
from hypothesis import strategies as st
from engine.driver import Result, viol

ID = "C14"
LEVEL = "exploration"
HANG_IS_VIOLATION = True     # every generated case terminates under the model: no reply (twice, then 3x confirmation) is a violation
ENGINE = "E-hyp"
TECHNIQUE = "property-based testing: generated source layouts (comments, single-/multi-line defines, inactive sections, nested includes, CRLF) in front of an injected fault whose true file/line/column is known by construction; reported location compared with it"
RULE = ("cases = a main file and up to 3 nested include files, each a list of layout blocks (// lines, block comments spanning k lines, single-line defines, multi-line "
        "defines with k continuation lines, inactive #ifdef sections with directives, active sections, blank lines, macro-expanded lines, #include) with LF or CRLF line "
        "ends, and one fault at a generated indentation placed before / inside / after an include: parse error token, runtime error operator, diag_log __LINE__, "
        "diag_log __FILE__, or an erroring function defined on one line and called on another (stack trace entries); non-trivial = the layout before the fault contains "
        "a multi-line block or an include boundary; distinct = SHA-1 of the case")
LEVEL_TEXT = ("Exploration with an exact oracle: the generator knows the physical file, line and column of the offending token, the diagnostic must name exactly that "
              "(columns only for tokens on lines not produced by macro expansion).")
LEVEL_NOTE = ("Trusted: the position bookkeeping of the generator (locating a unique marker in the composed text), the runner's structured log capture (path/line/col of "
              "RuntimeLogMessageBase), Hypothesis. Lines are 1-based, columns 0-based, as the unmodified code reports for a bare fault.")
ASSUMPTIONS = ["include paths are relative to the including file inside one mapped directory", "columns are only asserted on lines without macro expansion"]
SIZES = {"quick": dict(budget_s=45, batch=100), "thorough": dict(budget_s=600, batch=200)}
FLOORS = {"nontrivial": 0.5}

BLOCKS = ["blank", "linecomment", "blockcomment", "define1", "defineN", "inactive", "active", "code", "macroline", "inactive_str", "macronl", "commentquote", "bsnl"]


@st.composite
def _file_blocks(draw, depth, file_idx, counter):
    """list of blocks for one file; may contain ("include", child_index, child_blocks)"""
    out = []
    for _ in range(draw(st.integers(0, 6))):
        kinds = (["include", "include", "include"] if depth > 0 else []) + BLOCKS
        k = draw(st.sampled_from(kinds))
        if k == "include":
            counter[0] += 1
            idx = counter[0]
            out.append(["include", idx, draw(_file_blocks(depth - 1, idx, counter))])
        elif k in ("blank", "linecomment", "code", "active", "inactive", "blockcomment", "defineN", "inactive_str", "macronl"):
            out.append([k, draw(st.integers(1, 4))])
        else:
            out.append([k])
    return out


@st.composite
def _cases(draw):
    counter = [0]
    blocks = draw(_file_blocks(2, 0, counter))
    nfiles = counter[0] + 1
    fault = draw(st.sampled_from(["runtime", "runtime", "parse", "line", "file", "stack", "ppwarn"]))
    where = draw(st.integers(0, nfiles - 1))          # file that carries the fault (0 = main)
    after = draw(st.booleans())                        # in main: place the fault after all blocks (i.e. after returning from includes)
    return dict(blocks=blocks, fault=fault, where=where, indent=draw(st.integers(0, 12)), crlf=draw(st.booleans()), tail=draw(st.integers(0, 2)),
                prefix=draw(st.sampled_from(["", "", "", 'pq = "q""q"; ', "pq = 'a''b'; ", "/* c */ "])))


def strategy(env):
    return _cases()


def render(case, scratch):
    """returns (files{name: text}, fault file name, labels)"""
    files = {}
    labs = set()
    n = [0]
    nl = "\r\n" if case["crlf"] else "\n"
    if case["crlf"]:
        labs.add("crlf")
    fault_lines = _fault_lines(case)

    def emit(blocks, idx, is_main):
        lines = []
        if is_main:
            lines.append("ZZQ = 1;")
        for b in blocks:
            k = b[0]
            n[0] += 1
            u = n[0]
            if k == "blank":
                lines += [""] * b[1]
            elif k == "linecomment":
                lines += ["// comment %d ZZQ + )" % u] * b[1]
            elif k == "blockcomment":
                labs.add("multiline_block") if b[1] > 1 else None
                body = ["/* block %d" % u] + [" * ZZQ )" for _ in range(b[1] - 1)]
                body[-1] = body[-1] + " */"
                lines += body
            elif k == "define1":
                lines.append("#define M%d m%d = %d" % (u, u, u))
            elif k == "defineN":
                labs.add("multiline_define")
                body = ["#define N%d n%d = 1; \\" % (u, u)] + ["    n%d = n%d + 1; \\" % (u, u) for _ in range(b[1] - 1)] + ["    n%d = 0" % u]
                lines += body
            elif k == "inactive":
                labs.add("inactive_section")
                lines.append("#ifdef NOPE_%d" % u)
                # every directive kind occurs inside inactive sections (none of them may have an effect or cost a line)
                pool = ["dead%d = 1;" % u, "#define D%d 1" % u, '#include "nofile%d.hpp"' % u, "// dead", 'dead%d = "x";' % u, "#undef ZZQ",
                        '#include "main.sqf"', "#ifdef Q%d" % u, "#endif", "#pragma sqfvm dead", "#define DM%d 1 \\" % u, "   + 2"]
                start = (u * 5) % len(pool)
                seq = []
                j = 0
                while len(seq) < b[1]:
                    item = pool[(start + j) % len(pool)]
                    j += 1
                    if item == "#endif" and "#ifdef Q%d" % u not in seq:
                        continue
                    seq.append(item)
                if seq.count("#ifdef Q%d" % u) > seq.count("#endif"):
                    seq.append("#endif")
                if seq and seq[-1].endswith("\\"):
                    seq.append("   + 2")
                lines += seq
                lines.append("#endif")
            elif k == "active":
                lines.append("#ifndef NOPE_%d" % u)
                lines += ["a%d = %d;" % (u, j) for j in range(b[1])]
                lines.append("#endif")
            elif k == "code":
                lines += ["c%d = [%d, \"s\"];" % (u, j) for j in range(b[1])]
            elif k == "inactive_str":
                # a string spanning several lines inside an inactive section
                labs.add("inactive_section"); labs.add("multiline_string_in_inactive")
                lines.append("#ifdef NOPE_%d" % u)
                lines.append('deads%d = "first' % u)
                lines += ["  middle ZZQ )" for _ in range(b[1] - 1)]
                lines.append('last";')
                lines.append("#endif")
            elif k == "macronl":
                # a macro call whose argument list spans several lines (the second argument is not used by the body)
                labs.add("multiline_macro_call")
                lines.append("#define FA%d(a,b) a" % u)
                lines.append("fa%d = FA%d(%d," % (u, u, u))
                lines += [""] * (b[1] - 1)
                lines.append("2);")
            elif k == "bsnl":
                # backslash-newline outside of a directive: joined without a line break (tests/preprocess/backslash pins that output): known finding
                labs.add("backslash_newline_outside_directive")
                lines.append("bs%d = 1; \\" % u)
                lines.append("bt%d = 2;" % u)
            elif k == "commentquote":
                lines.append('cq%d = 1; /* c %d */"str";' % (u, u))
                lines.append("// after")
            elif k == "macroline":
                lines.append("#define X%d x%d = 1" % (u, u))
                lines.append("X%d;" % u)
            elif k == "include":
                labs.add("include")
                child = "inc%d.hpp" % b[1]
                emit(b[2], b[1], False)
                lines.append('#include "%s"' % child)
        if idx == case["where"]:
            lines += fault_lines
        for _ in range(case["tail"]):
            lines.append("t%d = 1;" % idx)
        name = "main.sqf" if is_main else "inc%d.hpp" % idx
        files[name] = nl.join(lines) + nl
        return name

    emit(case["blocks"], 0, True)
    fname = "main.sqf" if case["where"] == 0 else "inc%d.hpp" % case["where"]
    return files, fname, labs


def _fault_lines(case):
    ind = " " * case["indent"] + case.get("prefix", "")      # (the prefix puts escaped quotes in front of the fault on its own line)
    f = case["fault"]
    if f == "ppwarn":
        return ["#undef ZZNOTDEFINED_MACRO"]          # a directive the preprocessor warns about: the warning names the directive's line
    if f == "runtime":
        return [ind + 'ZZQ + "a";']
    if f == "parse":
        return [ind + "ZZP )"]
    if f == "line":
        return [ind + "diag_log __LINE__;"]
    if f == "file":
        return [ind + "diag_log __FILE__;"]
    if f == "stack":
        return [ind + 'zzf = { ZZQ + "a" };', "", ind + "  call zzf;"]
    raise ValueError(f)


def _locate(text, needle):
    """(line 1-based, col 0-based) of needle in text (physical lines)"""
    pos = text.index(needle)
    before = text[:pos]
    line = before.count("\n") + 1
    col = pos - (before.rfind("\n") + 1)
    return line, col


def check(case, env):
    scratch = os.path.join(env.scratch_dir(), "c14")
    os.makedirs(scratch, exist_ok=True)
    files, fname, labs = render(case, scratch)
    for name, text in files.items():
        with open(os.path.join(scratch, name), "wb") as fh:
            fh.write(text.encode("latin-1"))
    r = env.runner()
    r.new(vm=0, ops="full", mappings=[[scratch, "/c14"]])
    main = os.path.join(scratch, "main.sqf")
    fpath = os.path.join(scratch, fname)
    ftext = files[fname]
    rep = r.run(files["main.sqf"], vm=0, pp=True, file=main)
    logs = rep.get("logs", [])
    f = case["fault"]
    labs.add("fault_" + f)
    if case.get("prefix", "").startswith("/*") and f in ("runtime", "parse", "stack"):
        labs.add("block_comment_before_fault_on_its_line")      # known finding: the stripped comment shifts the column
    if case["where"] != 0:
        labs.add("fault_in_include")
    nontrivial = bool(labs & {"multiline_block", "multiline_define", "include", "multiline_string_in_inactive", "multiline_macro_call"})
    if nontrivial:
        labs.add("nontrivial")
    v = None
    src = "\n".join("--- %s\n%s" % (n_, t) for n_, t in sorted(files.items()))
    mixed = "+".join(sorted(labs & {"multiline_define", "multiline_block", "include", "inactive_section", "crlf", "fault_in_include", "multiline_string_in_inactive", "multiline_macro_call", "backslash_newline_outside_directive", "block_comment_before_fault_on_its_line"}))

    def bad(kind, msg):
        return viol("%s|%s|%s" % (kind, f, mixed), msg + "\nfiles:\n" + src + "\nlogs: %s" % [(l.get("p"), l.get("ln"), l.get("col"), l["m"][:70]) for l in logs[:5]])

    if f in ("runtime", "stack"):
        line, col = _locate(ftext, 'ZZQ + "a"')
        col += 4
        errs = [l for l in logs if l["l"] == 1]
        if rep.get("stage"):
            v = bad("rejected", "the generated source was rejected at stage %s" % rep.get("stage"))
        elif not errs:
            v = bad("no-diagnostic", "no runtime error diagnostic at all")
        else:
            e = errs[0]
            if (e.get("ln"), e.get("p")) != (line, fpath):
                v = bad("wrong-line", "runtime error reported at %s:%s, the operator is at %s:%d" % (e.get("p"), e.get("ln"), fpath, line))
            elif e.get("col") != col:
                v = bad("wrong-column", "runtime error reported at column %s, the operator is at column %d" % (e.get("col"), col))
        if v is None and f == "stack":
            fat = [l for l in logs if l["c"] == 60001]
            cl, _cc = _locate(ftext, "call zzf")
            entries = re.findall(r"<\s*\d+ of\s*\d+> \[L(\d+)\|C(\d+)\|([^\]]*)\]", fat[0]["m"]) if fat else []
            want = {(line, fpath), (cl, fpath)}
            got = {(int(a), p) for a, _b, p in entries}
            if not want <= got:
                v = bad("stacktrace-entry", "stack trace entries %s do not name the failing line %d and its call site %d in %s" % (sorted(got), line, cl, fpath))
    elif f == "parse":
        line, col = _locate(ftext, "ZZP )")
        col += 4
        errs = [l for l in logs if l["l"] == 1 and "Parse" in l["m"]]
        if not errs:
            v = bad("no-diagnostic", "no parse error diagnostic")
        else:
            e = errs[0]
            if (e.get("ln"), e.get("p")) != (line, fpath):
                v = bad("wrong-line", "parse error reported at %s:%s, the offending token is at %s:%d" % (e.get("p"), e.get("ln"), fpath, line))
            elif e.get("col") != col:
                v = bad("wrong-column", "parse error reported at column %s, the token is at column %d" % (e.get("col"), col))
    elif f == "ppwarn":
        line, _ = _locate(ftext, "#undef ZZNOTDEFINED_MACRO")
        warns = [l for l in logs if "ZZNOTDEFINED_MACRO" in l["m"]]
        if not warns:
            v = bad("no-diagnostic", "no preprocessor warning about the unknown macro")
        else:
            m_ = re.match(r"\[L(\d+)\|C(\d+)\|([^\]]*)\]", warns[0]["m"])
            got = (int(m_.group(1)), m_.group(3)) if m_ else (warns[0].get("ln"), warns[0].get("p"))
            if got != (line, fpath):
                v = bad("wrong-line", "the preprocessor warning is reported at %s, the directive is at %s:%d" % (got, fpath, line))
    elif f == "line":
        line, _ = _locate(ftext, "diag_log __LINE__")
        msgs = [l["m"] for l in logs if "[DIAG_LOG]" in l["m"]]
        if not msgs or not msgs[0].rstrip().endswith("[DIAG_LOG] %d" % line):
            v = bad("wrong-__LINE__", "__LINE__ written on line %d expands to %s" % (line, msgs[:1]))
    elif f == "file":
        msgs = [l["m"] for l in logs if "[DIAG_LOG]" in l["m"]]
        if not msgs or fpath not in msgs[0]:
            v = bad("wrong-__FILE__", "__FILE__ written in %s expands to %s" % (fpath, msgs[:1]))
    return Result(nontrivial=nontrivial, labels=sorted(labs), violation=v)
