"""C02 - control structures execute the statements SQF semantics prescribe.

Oracle: a Python reference interpreter (engine/sqfprog.py) executes the same AST
and yields the trace T (markers with bound values, observed construct values);
the VM's T (read back structurally, not through str) must be equal and the run
must complete without error-level diagnostics.
"""
import json
from engine.driver import Result, viol
from engine import sqfprog

ID = "C02"
LEVEL = "exploration"
HANG_IS_VIOLATION = True     # every generated case terminates under the model: no reply (twice, then 3x confirmation) is a violation
ENGINE = "E-hyp"
TECHNIQUE = "property-based testing: grammar-generated programs executed by the VM and by a Python reference interpreter; trace and construct values compared"
RULE = ("cases = structured programs (Hypothesis composite, depth<=4/5) nesting if/then/else, exitWith, while, for-from-to-step, forEach, "
        "count/select/apply/findIf with code, switch-case-default (fall-through, default anywhere), call (with/without argument), "
        "try-catch-throw, scopeName/breakOut (with/without value) and lazy &&/||; every program is type-correct by construction; "
        "non-trivial = >=2 different constructs nested (depth>=2) AND (an early exit - exitWith/breakOut/throw - or a loop construct); "
        "distinct = SHA-1 of the program AST")
LEVEL_TEXT = ("Exploration: generated programs are run on the real VM and on an independent reference interpreter and must agree on the "
              "executed-statement trace, bound magic variables and the value of every observed construct. Unbounded program space, so the "
              "claim is 'held on everything explored'.")
LEVEL_NOTE = ("Trusted: the reference interpreter in engine/sqfprog.py (grounded in the property text, tests/sqf/*.sqf and the operator "
              "descriptions), the structural value read-back of the runner, Hypothesis. Not asserted: values of loop constructs, bodies that "
              "modify the loop variable/array, anything raising a diagnostic.")
ASSUMPTIONS = [
    "loop constructs' own values are not asserted",
    "case labels are literals (no side effects in case expressions)",
    "exitWith is not generated directly inside count/select/apply/findIf code",
]
SIZES = {"quick": dict(budget_s=45, batch=100), "thorough": dict(budget_s=600, batch=200)}
FLOORS = {"nontrivial": 0.3, "early_exit": 0.25}

from hypothesis import strategies as st


def strategy(env):
    big = env.tier == "thorough"
    return sqfprog.programs(max_depth=5 if big else 4, max_stmts=6 if big else 4).map(lambda p: dict(prog=p))


def _vm(env):
    r = env.runner()
    if env.cache.get("gen") != r.generation:
        r.new(vm=0, ops="full")
        env.cache["gen"] = r.generation
        env.cache["n"] = 0
    env.cache["n"] += 1
    if env.cache["n"] % 500 == 0:
        r.new(vm=0, ops="full")
    return r


def labels_of(prog):
    f = sqfprog.features_of(prog)
    labs = set(f)
    early = f & {"exitwith", "breakout", "throw"}
    loops = f & {"while", "for", "foreach", "count", "findif", "select", "apply"}
    if early:
        labs.add("early_exit")
    kinds = f & {"if", "ifv", "while", "for", "foreach", "count", "findif", "select", "apply", "switch", "call", "try", "lazy", "exitwith", "breakout"}
    nontrivial = len(kinds) >= 2 and "nest>=2" in f and bool(early or loops)
    if nontrivial:
        labs.add("nontrivial")
    return labs, nontrivial


def check(case, env):
    prog = case["prog"]
    labs, nontrivial = labels_of(prog)
    try:
        model = sqfprog.run_model(prog)
    except sqfprog.Fault as f:
        return Result(inconclusive=True, labels=["model_fault"])
    if sqfprog.has_loop_value(model.T):
        return Result(inconclusive=True, labels=["loop_value_observed"])
    text = sqfprog.p_program(prog)
    r = _vm(env)
    r.cmd(dict(op="clearvars", vm=0))
    rep = r.run(text, vm=0, getvars=["T"], getvars_struct=True)
    v = None
    errs = [l for l in rep.get("logs", []) if l["l"] <= 1]
    feat = "+".join(sorted(labs & {"breakout", "exitwith", "throw", "switch", "try", "while", "for", "foreach", "count", "findif", "select", "apply", "lazy", "call", "ifv", "if"}))
    if not rep.get("ok"):
        v = viol("rejected|" + rep.get("stage", "?"), "generated program was rejected: %s\n%s" % (rep.get("logs", [])[:2], text))
    elif rep["result"] not in ("ok", "empty") or errs:
        code = errs[0]["c"] if errs else 0
        v = viol("error|%s|%s" % (code, feat), "type-correct program raised a diagnostic / did not complete (result=%s)\nprogram: %s\nlogs: %s" % (
            rep["result"], text, [l["m"] for l in errs[:3]]))
    else:
        try:
            got = sqfprog.vm_value(rep["vars"]["T"]["value"])
        except KeyError:
            got = "<T missing>"
        if got != model.T:
            if "OTHER\", \"SWITCH" in json.dumps(got):
                feat = "switch-trailing-bare-case"
            v = viol("trace-mismatch|" + feat, "trace differs from the reference semantics\nprogram: %s\nexpected T: %s\nvm       T: %s" % (
                text, json.dumps(model.T), json.dumps(got)))
    return Result(nontrivial=nontrivial, labels=sorted(labs), violation=v)
