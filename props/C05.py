"""C05 - operand stack partitioned per scope; a scope yields exactly one value.

Hostile blocks (early exitWith, mid-expression exits, breakOut with value, throw
caught outside/inside, loops restarting, value-leaving statements) are embedded
in pending-operand contexts `[a, b + (call H), [c, call H'], d]`.
Oracles: (i) stack invariants checked in C++ by the instruction observer at
every instruction boundary of every context; (ii) the value of the enclosing
expression equals the reference interpreter's.
"""
import json
from hypothesis import strategies as st
from engine.driver import Result, viol
from engine import sqfprog

ID = "C05"
LEVEL = "exploration"
HANG_IS_VIOLATION = True     # every generated case terminates under the model: no reply (twice, then 3x confirmation) is a violation
ENGINE = "E-hyp"
TECHNIQUE = "property-based testing: hostile blocks in pending-operand contexts; per-instruction stack invariants (hook) + reference-interpreter value oracle; concurrent scheduled copies with small slices"
RULE = ("cases = 1-3 statements `T pushBack [k, <ctx>]` where <ctx> is a nested array / binary chain whose operands include calls of hostile "
        "blocks (statement exitWith, mid-expression exitWith/breakOut-with-value/throw with a pending operand, loops with early exit, "
        "value-leaving statements, nested observations; 1 case in 8: operators applied to nil inside array literals), run unscheduled or as 2 concurrently spawned copies with slice 1..20; "
        "non-trivial = a hostile block runs an early exit or a loop while >=1 operand of an enclosing expression is pending; "
        "distinct = SHA-1 of the case")
LEVEL_TEXT = ("Exploration: every generated program must keep the observer's stack invariants at every instruction boundary (frame bases "
              "ordered and within the stack, nothing left after a statement separator) and the enclosing expressions must evaluate to the "
              "reference values.")
LEVEL_NOTE = ("Trusted: hook H3 (instruction observer) and the invariant code in runner.cpp, the reference interpreter, Hypothesis. "
              "Not covered: raw assembly bodies pushing extra values (fromAssembly__), errors caught by except__ (C04 covers the handler protocol).")
ASSUMPTIONS = ["hostile blocks are type-correct: every exit path yields a number", "programs do not assign shared globals"]
SIZES = {"quick": dict(budget_s=45, batch=100), "thorough": dict(budget_s=600, batch=200)}
FLOORS = {"nontrivial": 0.5}


NIL_UNARY = ["typeOf", "count", "str", "typeName", "abs", "floor", "!", "-", "toUpper", "isNull"]
NIL_BINARY = ["+", "-", "*", "select", "isEqualTo", "max", "pushBack", "in"]


@st.composite
def _nilcase(draw):
    """operators applied to nil inside pending-operand contexts: each application yields nil, the enclosing array keeps its other operands"""
    items = []
    for _ in range(draw(st.integers(2, 6))):
        c = draw(st.sampled_from(["n", "n", "un", "bin_r", "bin_l", "callun"]))
        if c == "n":
            items.append(["n", draw(st.integers(0, 9))])
        elif c == "un":
            items.append(["un", draw(st.sampled_from(NIL_UNARY))])
        elif c == "callun":
            items.append(["callun", draw(st.sampled_from(NIL_UNARY))])
        else:
            items.append([c, draw(st.sampled_from(NIL_BINARY)), draw(st.integers(0, 9))])
    if not any(i[0] != "n" for i in items):
        items.append(["un", draw(st.sampled_from(NIL_UNARY))])
    return dict(kind="nilops", items=items, nested=draw(st.booleans()))


@st.composite
def _cases(draw, max_depth=3):
    if draw(st.integers(0, 7)) == 0:
        return draw(_nilcase())
    counter = {"k": 0, "s": 0}

    def nk():
        counter["k"] += 1
        return counter["k"]

    def lit():
        return ["n", draw(st.sampled_from([0, 1, 2, 3, 5, 7, 10, 0.5]))]

    def truthy():
        return draw(st.sampled_from([["b", True], ["<", ["n", 1], ["n", 2]], ["==", ["n", 3], ["n", 3]]]))

    def falsy():
        return draw(st.sampled_from([["b", False], ["<", ["n", 2], ["n", 1]]]))

    def numblock(depth, scopes, in_try, nums):
        """plain block yielding a number (used as exitWith / catch / case bodies)"""
        out = []
        for _ in range(draw(st.integers(0, 2))):
            out.append(["mark", nk(), []])
        if depth > 0 and draw(st.integers(0, 3)) == 0:
            out.append(["obs", nk(), arrctx(depth - 1, scopes, in_try, nums)])
        out.append(["val", numleaf(nums)])
        return out

    def numleaf(nums):
        if nums and draw(st.booleans()):
            return ["v", draw(st.sampled_from(nums))]
        return lit()

    def hostile(depth, scopes, in_try, nums):
        """hostile block: always yields a number on every exit path"""
        out = []
        n = draw(st.integers(0, 3))
        exited = False
        for _ in range(n):
            c = draw(st.sampled_from(["mark", "leave", "obs", "loop", "exit_stmt", "exit_mid", "break_mid", "throw_mid", "exit_dead"]))
            if c == "mark":
                out.append(["mark", nk(), [["v", v] for v in nums[:2]]])
            elif c == "leave":
                out.append(["val", numctx(depth - 1, scopes, in_try, nums)])       # value-leaving statement
            elif c == "obs" and depth > 0:
                out.append(["obs", nk(), arrctx(depth - 1, scopes, in_try, nums)])
            elif c == "loop" and depth > 0:
                body = [["mark", nk(), [["v", "_x"]]]]
                if draw(st.booleans()):
                    body.append(["exitwith", ["==", ["v", "_x"], ["n", draw(st.sampled_from([0, 1, 2]))]], numblock(depth - 1, scopes, in_try, nums + ("_x",))])
                if draw(st.booleans()):
                    body.append(["val", numctx(depth - 1, scopes, in_try, nums + ("_x",))])
                out.append(["foreach", ["a", [["n", i] for i in range(draw(st.integers(0, 3)))]], body])
            elif c == "exit_stmt":
                out.append(["exitwith", truthy() if draw(st.booleans()) else falsy(), numblock(depth - 1, scopes, in_try, nums)])
            elif c == "exit_dead":
                out.append(["exitwith", falsy(), numblock(depth - 1, scopes, in_try, nums)])
            elif c == "exit_mid":
                out.append(["val", ["+", lit(), ["ewx", truthy(), numblock(depth - 1, scopes, in_try, nums)]]])
                exited = True
            elif c == "break_mid" and scopes:
                out.append(["val", ["+", lit(), ["brx", draw(st.sampled_from(scopes)), numleaf(nums)]]])
                exited = True
            elif c == "throw_mid" and in_try:
                out.append(["val", ["*", lit(), ["thx", numleaf(nums)]]])
                exited = True
            if exited:
                break
        if not exited:
            out.append(["val", numctx(depth - 1, scopes, in_try, nums) if depth > 0 and draw(st.booleans()) else numleaf(nums)])
        return out

    def numctx(depth, scopes, in_try, nums):
        """numeric expression with pending operands around hostile calls"""
        if depth <= 0:
            return numleaf(nums)
        c = draw(st.sampled_from(["lit", "bin", "bin", "call", "call", "scopecall", "ifv", "try", "switch", "arg"]))
        if c == "lit":
            return numleaf(nums)
        if c == "bin":
            return [draw(st.sampled_from(["+", "-", "*"])), numctx(depth - 1, scopes, in_try, nums), numctx(depth - 1, scopes, in_try, nums)]
        if c == "call":
            return ["call", hostile(depth - 1, scopes, in_try, nums), None]
        if c == "arg":
            return ["call", hostile(depth - 1, scopes, in_try, nums + ("_this",)), numleaf(nums)]
        if c == "scopecall":
            counter["s"] += 1
            nm = "s%d" % counter["s"]
            return ["call", [["scope", nm]] + hostile(depth - 1, scopes + (nm,), in_try, nums), None]
        if c == "ifv":
            return ["ifv", truthy() if draw(st.booleans()) else falsy(), hostile(depth - 1, scopes, in_try, nums), hostile(depth - 1, scopes, in_try, nums)]
        if c == "try":
            return ["try", hostile(depth - 1, (), True, nums), numblock(depth - 1, scopes, in_try, nums + ("_exception",))]
        if c == "switch":
            cases = []
            for _ in range(draw(st.integers(0, 2))):
                cases.append([[["n", draw(st.sampled_from([0, 1, 2]))]], hostile(depth - 1, scopes, in_try, nums)])
            return ["switch", ["n", draw(st.sampled_from([0, 1, 2, 3]))], cases, hostile(depth - 1, scopes, in_try, nums), draw(st.integers(0, 2))]
        raise ValueError(c)

    def arrctx(depth, scopes, in_try, nums):
        n = draw(st.integers(1, 4))
        elems = []
        for _ in range(n):
            if depth > 0 and draw(st.integers(0, 4)) == 0:
                elems.append(arrctx(depth - 1, scopes, in_try, nums))
            else:
                elems.append(numctx(depth, scopes, in_try, nums))
        return ["a", elems]

    nst = draw(st.integers(1, 3))
    prog = [["obs", nk(), arrctx(max_depth, (), False, ())] for _ in range(nst)]
    mode = draw(st.sampled_from(["plain", "plain", "spawn2"]))
    return dict(prog=prog, mode=mode, slice=draw(st.integers(1, 20)))


def strategy(env):
    return _cases(max_depth=4 if env.tier == "thorough" else 3)


def _vm(env, slice_n):
    r = env.runner()
    if env.cache.get("gen") != r.generation:
        env.cache["gen"] = r.generation
        env.cache["n"] = 0
        r.new(vm=0, ops="full", slice=150)
        r.cmd(dict(op="observe", enabled=True, check_stack=True, record=False))
    env.cache["n"] += 1
    if env.cache["n"] % 400 == 0:
        r.new(vm=0, ops="full")
    r.cmd(dict(op="slice", n=slice_n))
    return r


def _hostility(prog):
    txt = json.dumps(prog)
    labs = set()
    for key, lab in (('"ewx"', "exit_mid_expression"), ('"brx"', "breakout_mid_expression"), ('"thx"', "throw_mid_expression"),
                     ('"exitwith"', "exit_statement"), ('"foreach"', "loop"), ('"try"', "try"), ('"switch"', "switch"), ('"scope"', "named_scope")):
        if key in txt:
            labs.add(lab)
    return labs


def _check_nil(case, env):
    parts, exp = [], []
    for it in case["items"]:
        if it[0] == "n":
            parts.append(str(it[1])); exp.append(float(it[1]))
        elif it[0] == "un":
            parts.append("%s NILV" % it[1]); exp.append(None)
        elif it[0] == "callun":
            parts.append("call {%s NILV}" % it[1]); exp.append(None)
        elif it[0] == "bin_r":
            parts.append("(%d %s NILV)" % (it[2], it[1])); exp.append(None)
        else:
            parts.append("(NILV %s %d)" % (it[1], it[2])); exp.append(None)
    inner = "[" + ", ".join(parts) + "]"
    text = "private _a = [7, %s, 8]; T = _a;" % inner if case["nested"] else "T = %s;" % inner
    want = [7.0, exp, 8.0] if case["nested"] else exp
    r = _vm(env, 150)
    r.cmd(dict(op="clearvars", vm=0))
    r.cmd(dict(op="observe", enabled=True, check_stack=True, record=False))
    rep = r.run(text, vm=0, getvars=["T"], getvars_struct=True)
    errs = [l for l in rep.get("logs", []) if l["l"] <= 1]
    sv = rep.get("obs", {}).get("stack_violations", [])
    v = None
    if sv:
        v = viol("stack-invariant|nil-operand", "operand stack invariant broken: %s\nprogram: %s" % (sv[:3], text))
    elif rep.get("result") not in ("ok", "empty") or errs:
        v = viol("nil-operand|error", "an operator applied to nil (undefined variable NILV) broke the enclosing expression\nprogram: %s\nlogs: %s" % (text, [l["m"][:100] for l in errs[:3]]))
    else:
        got = sqfprog.vm_value(rep["vars"]["T"]["value"]) if "T" in rep.get("vars", {}) else "<missing>"
        if got != want:
            v = viol("nil-operand|value", "operands of the enclosing array were lost or replaced\nprogram: %s\nexpected: %s\nvm: %s" % (text, json.dumps(want), json.dumps(got)))
    return Result(nontrivial=True, labels=["kind_nilops", "nontrivial"], violation=v)


def check(case, env):
    if case.get("kind") == "nilops":
        return _check_nil(case, env)
    prog = case["prog"]
    labs = _hostility(prog)
    labs.add("mode_" + case["mode"])
    nontrivial = bool(labs & {"exit_mid_expression", "breakout_mid_expression", "throw_mid_expression", "exit_statement", "loop"})
    if nontrivial:
        labs.add("nontrivial")
    try:
        model = sqfprog.run_model(prog)
    except sqfprog.Fault:
        return Result(inconclusive=True, labels=["model_fault"])
    if sqfprog.has_loop_value(model.T):
        return Result(inconclusive=True, labels=["loop_value_observed"])
    r = _vm(env, case["slice"] if case["mode"] == "spawn2" else 150)
    r.cmd(dict(op="clearvars", vm=0))
    r.cmd(dict(op="observe", enabled=True, check_stack=True, record=False))
    if case["mode"] == "plain":
        text = sqfprog.p_program(prog, "T")
        names = ["T"]
    else:
        b1 = sqfprog.p_program(prog, "T1")
        b2 = sqfprog.p_program(prog, "T2")
        text = "[] spawn {" + b1 + "}; [] spawn {" + b2 + "};"
        names = ["T1", "T2"]
    rep = r.run(text, vm=0, getvars=names, getvars_struct=True)
    v = None
    errs = [l for l in rep.get("logs", []) if l["l"] <= 1]
    sv = rep.get("obs", {}).get("stack_violations", [])
    if not rep.get("ok"):
        v = viol("rejected", "generated program rejected: %s\n%s" % (rep.get("logs", [])[:2], text))
    elif sv:
        v = viol("stack-invariant|" + sv[0].split(" at ")[0][:40], "operand stack invariant broken at an instruction boundary: %s\nprogram: %s" % (sv[:3], text))
    elif rep["result"] not in ("ok", "empty") or errs:
        v = viol("error|%s" % (errs[0]["c"] if errs else rep["result"]), "program raised a diagnostic / did not complete (result=%s)\nprogram: %s\nlogs: %s" % (
            rep["result"], text, [l["m"] for l in errs[:3]]))
    else:
        for nm in names:
            try:
                got = sqfprog.vm_value(rep["vars"][nm]["value"])
            except KeyError:
                got = "<missing>"
            if got != model.T:
                v = viol("value-mismatch|" + "+".join(sorted(labs - {"nontrivial", "mode_plain", "mode_spawn2"})),
                         "enclosing expression values differ from the reference\nprogram: %s\nexpected %s: %s\nvm: %s" % (text, nm, json.dumps(model.T), json.dumps(got)))
                break
    return Result(nontrivial=nontrivial, labels=sorted(labs), violation=v)
