"""C19 - execution control (start/step/stop/abort) follows its state machine, thread-safe."""
import json, time
from hypothesis import strategies as st
from engine.driver import Result, viol
from engine.runner import RunnerCrash, sanitizer_signature
from engine.sqfprog import vm_value

ID = "C19"
LEVEL = "exploration"
ENGINE = "E-thr"
FLAVOURS = ("asan", "tsan")
TECHNIQUE = "model-based testing of the control state machine: generated sequential action sequences checked against result/state invariants with the instruction observer (hook H3); harness-owned two-thread schedules (executor blocked at instruction k while the controller acts); free-running two-thread runs under ThreadSanitizer"
RULE = ("three case kinds: seq = <=8 control actions (start, stop, abort, assembly_step, line_step, leave_scope) from a generated situation (no script, script loaded, "
        "multi-line script with nested scopes, script raising an error, several scripts); sched = an executor thread runs start on a long program, is blocked by the "
        "observer before instruction k (k generated) while the controller issues 1-3 actions, then released; free = executor and controller run unsynchronised in the TSan "
        "build; non-trivial = the sequence contains a refused action, a step action, or a controller action while the executor is inside execute; distinct = SHA-1 of the case")
LEVEL_TEXT = ("Exploration: sequential sequences must respect the result/state table, step semantics (exactly one instruction; one source line; scope left), never crash and "
              "leave a usable VM; with the executor parked at an instruction boundary every controller action must be refused or take effect within 2 instructions, with at "
              "most one thread inside execute; free-running runs must be free of ThreadSanitizer reports.")
LEVEL_NOTE = ("Trusted: hook H3 (instruction observer, may block the executor) and the thread scenarios in runner.cpp, TSan for races inside an instruction. "
              "Interleavings are covered at instruction granularity only.")
ASSUMPTIONS = ["the controller only acts while the executor is parked at an instruction boundary (sched) or free-running under TSan (free)"]
SIZES = {"quick": dict(budget_s=45, batch=40), "thorough": dict(budget_s=600, batch=100)}
FLOORS = {"nontrivial": 0.5}

ACTIONS = ["start", "stop", "abort", "assembly_step", "line_step", "leave_scope"]
SCRIPTS = {
    "multi": "T = [];\nT pushBack 1;\nprivate _a = [1,\n  2,\n  3];\ncall {\n  T pushBack 2;\n  call {\n    T pushBack 3;\n  };\n  T pushBack 4;\n};\n{ T pushBack _x } forEach [5, 6];\nT pushBack 7;",
    "short": "T = []; T pushBack 1; T pushBack 2;",
    "error": 'T = [];\nT pushBack 1;\nprivate _x = 1 + "a";\nT pushBack 2;',
    "nested": "T = [];\nif (true) then {\n  if (true) then {\n    T pushBack 1;\n    T pushBack 2;\n  };\n  T pushBack 3;\n};\nT pushBack 4;",
}
LONG = "CNT = 0; for \"_i\" from 1 to %d do { CNT = _i; }; DONE = 1;"


@st.composite
def _cases(draw):
    kind = draw(st.sampled_from(["seq", "seq", "seq", "sched", "sched", "free"]))
    if kind == "seq":
        situation = draw(st.sampled_from(["none", "multi", "multi", "short", "error", "nested", "two"]))
        acts = draw(st.lists(st.sampled_from(ACTIONS + ["assembly_step", "line_step", "leave_scope"]), min_size=1, max_size=8))
        return dict(kind="seq", situation=situation, actions=acts)
    if kind == "sched":
        return dict(kind="sched", k=draw(st.integers(0, 60)), actions=draw(st.lists(st.sampled_from(ACTIONS), min_size=1, max_size=3)), n=draw(st.sampled_from([50, 300])))
    return dict(kind="free", actions=draw(st.lists(st.sampled_from(ACTIONS), min_size=1, max_size=6)), delays_us=draw(st.lists(st.integers(0, 300), min_size=6, max_size=6)))


def strategy(env):
    return _cases()


def _fresh(r, **kw):
    r.new(vm=0, ops="full", **kw)
    r.cmd(dict(op="observe", enabled=True, record=True, check_stack=False, max_records=50000))


def _final_usable(r, ctx, stepwise=False):
    """after any sequence the VM accepts further actions: clear it and run a fresh script to completion"""
    st_ = r.cmd(dict(op="state", vm=0))
    if stepwise and st_["state"] not in ("halted", "halted_error"):
        # whatever is left (scripts not yet run, finished or empty contexts) stays: the fresh script is stepped behind it
        r.cmd(dict(op="load", vm=0, sqf="U = []; U pushBack 1; U pushBack 2;", file="fresh.sqf"))
        last, empties, steps = None, 0, 0
        for steps in range(1500):
            last = r.cmd(dict(op="action", vm=0, action="assembly_step"))
            if last["result"] == "empty":
                empties += 1
                if empties >= 3:
                    break
            elif last["result"] == "ok":
                empties = 0
            else:
                break
        rep = r.cmd(dict(op="getvar", vm=0, name="U"))
        got = vm_value(rep["value"]) if rep.get("exists") else None
        if last["result"] == "runtime_error":
            r.cmd(dict(op="action", vm=0, action="abort"))
            return None         # a script of the situation raised its error while being stepped: not what is probed here
        if got != [1.0, 2.0]:
            return viol("vm-unusable-afterwards|stepwise", ctx + "after the sequence a script loaded afterwards cannot be stepped to its end with assembly_step (%d steps, last result=%s state=%s): U=%s" % (
                steps + 1, last["result"], last["state"], got))
        return None
    if st_["state"] in ("halted", "halted_error"):
        rep = r.cmd(dict(op="action", vm=0, action="abort"))
        if rep["result"] != "ok" or rep["state"] != "empty":
            return viol("abort-on-halted", ctx + "abort on a %s VM returned %s / state %s (ok / empty expected, all scripts discarded)" % (st_["state"], rep["result"], rep["state"]))
    elif st_["ncontexts"]:
        r.cmd(dict(op="action", vm=0, action="start"))
        st2 = r.cmd(dict(op="state", vm=0))
        if st2["state"] in ("halted", "halted_error"):
            r.cmd(dict(op="action", vm=0, action="abort"))
    rep = r.run("U = []; U pushBack 1; U pushBack 2;", vm=0, getvars=["U"], getvars_struct=True)
    got = vm_value(rep["vars"]["U"]["value"]) if "U" in rep.get("vars", {}) else None
    if rep.get("result") not in ("empty", "ok") or got != [1.0, 2.0] or [l for l in rep.get("logs", []) if l["l"] <= 1]:
        return viol("vm-unusable-afterwards", ctx + "after the sequence a fresh script does not run to completion: result=%s U=%s logs=%s" % (rep.get("result"), got, [l["m"][:80] for l in rep.get("logs", [])[:3]]))
    return None


def _check_seq(case, env):
    r = env.runner(timeout=15.0)
    _fresh(r)
    sit = case["situation"]
    labs = {"kind_seq", "sit_" + sit}
    if sit == "two":
        r.cmd(dict(op="load", vm=0, sqf=SCRIPTS["short"], file="a.sqf"))
        r.cmd(dict(op="load", vm=0, sqf=SCRIPTS["nested"], file="b.sqf"))
    elif sit != "none":
        r.cmd(dict(op="load", vm=0, sqf=SCRIPTS[sit], file="main.sqf"))
    trace = []
    v = None
    for a in case["actions"]:
        before = r.cmd(dict(op="inspect", vm=0))
        r.cmd(dict(op="observe", enabled=True, record=True, check_stack=False, max_records=50000))
        rep = r.cmd(dict(op="action", vm=0, action=a, contexts=True))
        obs = r.cmd(dict(op="obs"))
        res, state = rep["result"], rep["state"]
        executed = rep["executed"]
        trace.append((a, res, state, executed))
        ctx = "situation: %s\nactions so far (action, result, state, instructions executed): %s\n" % (sit, trace)
        if a in ("assembly_step", "line_step", "leave_scope"):
            labs.add("step")
        # result/state table
        table = {"ok": ("halted",), "empty": ("empty",), "runtime_error": ("halted_error",)}
        if res == "invalid":
            v = viol("result-invalid|%s|%s" % (a, "noscript" if not before["contexts"] else "script"), ctx + "the action returned `invalid` (state %s); documented results are ok / action_error (and empty / runtime_error for executing actions)" % state)
        elif a in ("start", "assembly_step", "line_step", "leave_scope") and res in table and state not in table[res]:
            v = viol("state-table|%s" % a, ctx + "result %s is reported with state %s" % (res, state))
        elif res == "action_error":
            labs.add("refused")
            if state != before["state"]:
                v = viol("refused-changed-state|%s" % a, ctx + "a refused action changed the state from %s to %s" % (before["state"], state))
        if v is None and a in ("start", "assembly_step", "line_step", "leave_scope") and not before["contexts"]:
            # no script is loaded (never was, all finished, or discarded by abort): nothing may get executed
            if executed != 0 or res not in ("empty",):
                v = viol("executes-without-script|%s" % a, ctx + "no script is loaded (state %s, 0 scripts), yet %s executed %d instruction(s) and returned %s: %s" % (
                    before["state"], a, executed, res, [rc[4] for rc in obs.get("recs", [])[:3]]))
        if v is None and a == "stop" and res != "action_error":
            v = viol("stop-when-not-running", ctx + "stop on a VM that is not running returned %s" % res)
        if v is None and a == "abort":
            if before["state"] in ("halted", "halted_error"):
                if res != "ok" or state != "empty" or rep.get("contexts"):
                    v = viol("abort-on-halted", ctx + "abort on a %s VM: result %s, state %s, %d scripts left (ok / empty / 0 expected)" % (before["state"], res, state, len(rep.get("contexts", []))))
            elif res != "action_error":
                v = viol("abort-when-empty", ctx + "abort on a VM in state %s returned %s (action_error expected)" % (before["state"], res))
        if v is None and a == "assembly_step":
            if executed > 1 or (res == "ok" and executed != 1):
                v = viol("assembly-step-count", ctx + "an assembly step executed %d instructions" % executed)
        recs = obs.get("recs", [])
        if v is None and a == "line_step" and res == "ok" and recs:
            lines = {rc[3] for rc in recs}
            ctxs = rep.get("contexts", [])
            nxt = ctxs[0].get("next_line") if ctxs else None
            same_frame = ctxs and before["contexts"] and ctxs[0]["frames"] == before["contexts"][0]["frames"]
            # leaving or entering a scope may change the line (the caller's statement ends on its own line); within one frame it may not
            jumps = [(x[3], y[3]) for x, y in zip(recs, recs[1:]) if x[0] == y[0] and x[1] == y[1] and x[3] != y[3]]
            if jumps:
                v = viol("line-step-several-lines", ctx + "a line step executed instructions of several lines within one scope: %s" % jumps[:3])
            elif nxt is not None and same_frame and nxt in lines:
                v = viol("line-step-stops-inside-line", ctx + "a line step executed %d instruction(s) of line %s and stopped although the next instruction is on the same line" % (len(recs), sorted(lines)))
        if v is None and a == "leave_scope" and res == "ok" and before["contexts"]:
            fb = before["contexts"][0]["frames"]
            ctxs = rep.get("contexts", [])
            fa = ctxs[0]["frames"] if ctxs else 0
            if fa >= fb and fb > 0:
                v = viol("leave-scope-not-left", ctx + "leave_scope returned ok but the frame depth went from %d to %d" % (fb, fa))
        if v is not None:
            break
    if v is None:
        v = _final_usable(r, "situation: %s\nactions (action, result, state, executed): %s\n" % (sit, trace), stepwise=(len(case["actions"]) % 2 == 0))
    nontrivial = bool(labs & {"step", "refused"})
    return Result(nontrivial=nontrivial, labels=sorted(labs | ({"nontrivial"} if nontrivial else set())), violation=v)


def _check_sched(case, env):
    r = env.runner(timeout=20.0)
    _fresh(r)
    labs = {"kind_sched"}
    r.cmd(dict(op="observe", enabled=True, record=False, check_stack=False))
    r.cmd(dict(op="load", vm=0, sqf=LONG % case["n"], file="long.sqf"))
    rep = r.cmd(dict(op="exec_start", vm=0, exec=0, action="start", block_at=case["k"]))
    ctx = "executor: start on a %d-iteration loop, parked before instruction %d; controller actions: %s\n" % (case["n"], case["k"], case["actions"])
    v = None
    stopped = False
    results = []
    if rep.get("blocked"):
        for a in case["actions"]:
            ar = r.cmd(dict(op="action", vm=0, action=a))
            results.append((a, ar["result"], ar["state"]))
            if a in ("stop", "abort"):
                if ar["result"] != "ok":
                    v = viol("stop-refused-while-running|%s" % a, ctx + "%s while the executor is inside execute returned %s" % (a, ar["result"]))
                stopped = True
            else:
                if ar["result"] != "action_error":
                    v = viol("second-executor|%s" % a, ctx + "%s was accepted (%s) while another thread is executing" % (a, ar["result"]))
            if v:
                break
        r.cmd(dict(op="exec_release"))
    j = r.cmd(dict(op="exec_join", vm=0, exec=0, timeout_ms=15000))
    ctx += "controller results: %s; join: %s\n" % (results, {k_: j.get(k_) for k_ in ("done", "result", "state", "obs_count", "max_inside")})
    if v is None and not j.get("done"):
        v = viol("executor-did-not-return", ctx + "the executor did not return within 15 s after being released")
    if v is None and j.get("max_inside", 0) > 1:
        v = viol("two-executors-inside", ctx + "two threads were inside execute at the same time")
    if v is None and stopped and rep.get("blocked"):
        if j["obs_count"] - case["k"] > 2:
            v = viol("stop-not-prompt", ctx + "after stop/abort returned ok the executor executed %d more instructions (bound: 2)" % (j["obs_count"] - case["k"]))
        elif j["state"] != "empty":
            v = viol("stop-leaves-state", ctx + "after stop/abort the state is %s (empty expected)" % j["state"])
    if v is None and not stopped and j.get("done") and j.get("result") != "empty":
        v = viol("refused-actions-disturbed-run", ctx + "only refused actions were issued, yet the run ended with %s" % j.get("result"))
    if v is None and j.get("done"):
        v = _final_usable(r, ctx)
    return Result(nontrivial=True, labels=sorted(labs | {"nontrivial"}), violation=v)


def _check_free(case, env):
    r = env.runner("tsan", timeout=30.0)
    r.new(vm=0, ops="full")
    r.cmd(dict(op="load", vm=0, sqf=LONG % 20000, file="long.sqf"))
    rep0 = r.cmd(dict(op="exec_start", vm=0, exec=0, action="start"))
    reports = rep0.get("stderr", "")
    for a, d in zip(case["actions"], case["delays_us"]):
        if d:
            time.sleep(d / 1e6)
        ar = r.cmd(dict(op="action", vm=0, action=a))
        reports += ar.get("stderr", "")
    ar = r.cmd(dict(op="action", vm=0, action="stop"))
    reports += ar.get("stderr", "")
    j = r.cmd(dict(op="exec_join", vm=0, exec=0, timeout_ms=20000))
    reports += j.get("stderr", "")
    ctx = "free-running executor + controller actions %s (TSan build)\n" % case["actions"]
    v = None
    if not j.get("done"):
        v = viol("executor-did-not-return|free", ctx + "executor did not return within 20 s")
        r.restart()
    elif "ThreadSanitizer" in reports:
        first = reports[reports.index("WARNING: ThreadSanitizer"):][:1500] if "WARNING: ThreadSanitizer" in reports else reports[:1500]
        import re
        m = re.search(r"(Write|Read) of size \d+ at .*?\n\s+#0 (.+?) /repo/src/([^\s:]+):(\d+)", first, re.S)
        where = ("%s:%s" % (m.group(3), m.group(4))) if m else "?"
        v = viol("tsan-data-race|%s" % where.split(":")[0], ctx + "ThreadSanitizer reported a data race between the executor and the controller:\n" + first)
    return Result(nontrivial=True, labels=["kind_free", "nontrivial"], violation=v)


def on_crash(case, env, rc):
    kind = case.get("kind")
    if rc.kind == "timeout":
        return Result(nontrivial=True, labels=["hang"], violation=viol("deadlock|%s" % kind, "no reply within the watchdog (deadlock?)\ncase: %s" % json.dumps(case)))
    sit = case.get("situation", "")
    return Result(nontrivial=True, labels=["crash"], violation=viol("crash|%s|%s|%s" % (kind, sit, sanitizer_signature(rc.detail)), "the process crashed\ncase: %s\n%s" % (json.dumps(case), rc.detail[-1200:])))


def check(case, env):
    if case["kind"] == "seq":
        return _check_seq(case, env)
    if case["kind"] == "sched":
        return _check_sched(case, env)
    return _check_free(case, env)
