"""C15 - config tree: values read back, inheritance lookup, merge/delete/append, acyclic."""
import json
from hypothesis import strategies as st
from engine.driver import Result, viol
from engine.sqfprog import vm_value
from engine.runner import RunnerCrash

ID = "C15"
LEVEL = "exploration"
ENGINE = "E-hyp"
TECHNIQUE = "model-based property testing: generated config texts (1-3 loaded in sequence) and lookup paths against a Python config-tree model; inheritance walks bounded to detect cycles"
RULE = ("cases = 1-3 config texts over class names A-D and entry names x,y,z,arr: nested classes (depth<=3), single inheritance by name (base in the same or an "
        "enclosing scope, or missing), forward declarations, re-opening with same/different/no base, delete, values (numbers, strings, bare words, nested arrays), "
        "arr[] += {...}, and cycle attempts (class A: A, A:B then B:A, re-open with a descendant as base); every class path of the model and every entry name is "
        "queried through >>, getNumber/getText/getArray, isNumber/isText/isArray/isClass, count/select/configName, inheritsFrom and configHierarchy; "
        "non-trivial = a lookup resolves through >=1 inheritance link, or a class is re-opened in a later text, or the case contains a cycle attempt or a delete; "
        "distinct = SHA-1 of the case")
LEVEL_TEXT = ("Exploration against a reference tree: every query result must equal the model's; after cycle attempts only acyclicity (inheritsFrom reaches null "
              "within #classes steps) and termination of every lookup are asserted.")
LEVEL_NOTE = ("Trusted: the Python config model in this file (base resolved at definition time through enclosing classes; lookup = own entries, then ancestors, "
              "nearest wins; re-open merges; delete hides; += appends to the inherited array), the runner. Case-insensitive matching is not asserted.")
ASSUMPTIONS = ["entry names are not reused for both a class and a value", "after a refused cyclic re-binding only acyclicity and termination are asserted"]
SIZES = {"quick": dict(budget_s=45, batch=80), "thorough": dict(budget_s=600, batch=150)}
FLOORS = {"nontrivial": 0.4}

CLASSES = ["A", "B", "C", "D", "E", "F", "G", "H"]
FIELDS = ["x", "y", "z", "class_x", "delete1"]      # (two names that start with a keyword)


@st.composite
def _value(draw, depth=2):
    k = draw(st.sampled_from(["num", "num", "str", "word", "arr"] if depth > 0 else ["num", "str", "word"]))
    if k == "num":
        return ["num", draw(st.sampled_from([0, 1, 2, 5, 42, 0.5, 1.25, 100]))]
    if k == "str":
        return ["str", draw(st.sampled_from(["", "a", "hello world", 'q""q', "x;y", "{}"]))]
    if k == "word":
        return ["word", draw(st.sampled_from(["abc", "true", "some_word", "w1"]))]
    return ["arr", [draw(_value(depth - 1)) for _ in range(draw(st.integers(0, 3)))]]


@st.composite
def _body(draw, depth, known=(), avoid=()):
    """known: class names visible from here (own scope so far + enclosing scopes) - bases are mostly drawn from them"""
    out = []
    known = list(known)
    own = set()
    arr_done = False
    for _ in range(draw(st.integers(0, 6))):
        kinds = ["field", "field", "field"] + ([] if arr_done else ["arrfield", "append"])
        if depth > 0:
            kinds += ["class", "class", "classbase", "classbase", "classbase", "classbase", "fwd"]
        rare = draw(st.integers(0, 14))
        if rare == 0:
            kinds = ["delete"]
        elif rare == 1 and depth > 0:
            kinds = ["selfbase"]
        k = draw(st.sampled_from(kinds))
        if k in ("arrfield", "append"):
            arr_done = True
        if k == "field":
            # (now and then a name that is a class elsewhere: re-defining an entry with the other kind)
            out.append(["field", draw(st.sampled_from(FIELDS if draw(st.integers(0, 9)) else CLASSES[:3])), draw(_value(0))])
        elif k == "arrfield":
            out.append(["arrfield", "arr", [draw(_value(1)) for _ in range(draw(st.integers(0, 3)))]])
        elif k == "append":
            out.append(["append", "arr", [draw(_value(0)) for _ in range(draw(st.integers(0, 2)))]])
        elif k == "class":
            c = draw(st.sampled_from(CLASSES if draw(st.integers(0, 11)) else ["x", "y"]))
            out.append(["class", c, None, draw(_body(depth - 1, known, avoid))])
            known.append(c)
        elif k == "classbase":
            fresh = [x for x in CLASSES if x not in known and x not in avoid]
            # mostly a class that is new here: re-opening a class with another base is where cycles (asserted only for termination) come from
            c = draw(st.sampled_from(fresh)) if fresh and draw(st.integers(0, 4)) else draw(st.sampled_from(CLASSES))
            pool = [x for x in known if x != c] or CLASSES
            base = draw(st.sampled_from(pool + ["Missing"])) if draw(st.integers(0, 9)) else draw(st.sampled_from(CLASSES))
            out.append(["class", c, base, draw(_body(depth - 1, known, avoid))])
            known.append(c)
        elif k == "selfbase":
            c = draw(st.sampled_from(CLASSES))
            out.append(["class", c, c, draw(_body(0, known))])
            known.append(c)
        elif k == "fwd":
            c = draw(st.sampled_from(CLASSES))
            out.append(["fwd", c, draw(st.sampled_from([None, None] + [x for x in known if x != c][:3]))])
            known.append(c)
        elif k == "delete":
            cand = [n for n in CLASSES + FIELDS + ["arr"] if n not in own]
            if cand:
                out.append(["delete", draw(st.sampled_from(cand))])
        if out and out[-1][0] != "delete":
            own.add(out[-1][1])
    return out


@st.composite
def _cases(draw):
    n = draw(st.integers(1, 3))
    texts = []
    used = set()

    def names(b):
        for s_ in b:
            if s_[0] in ("class", "fwd"):
                used.add(s_[1])
                if s_[0] == "class":
                    names(s_[3])
    for _ in range(n):
        # a later text mostly derives new classes from the earlier ones; re-opening an earlier class with another base stays possible but rare
        body = [s for s in draw(_body(3, avoid=tuple(sorted(used)))) if s[0] in ("class", "fwd", "delete")]     # top level: classes and deletes only
        names(body)
        texts.append(body)
    return dict(texts=texts)


def strategy(env):
    return _cases()


# ------------------------------------------------------------------ printing

def p_value(v):
    if v[0] == "num":
        return str(v[1])
    if v[0] == "str":
        return '"' + v[1] + '"'
    if v[0] == "word":
        return v[1]
    return "{" + ", ".join(p_value(x) for x in v[1]) + "}"


def p_body(body, ind=""):
    out = []
    for s in body:
        if s[0] == "field":
            out.append("%s%s = %s;" % (ind, s[1], p_value(s[2])))
        elif s[0] == "arrfield":
            out.append("%s%s[] = {%s};" % (ind, s[1], ", ".join(p_value(x) for x in s[2])))
        elif s[0] == "append":
            out.append("%s%s[] += {%s};" % (ind, s[1], ", ".join(p_value(x) for x in s[2])))
        elif s[0] == "class":
            head = "%sclass %s" % (ind, s[1]) + (" : %s" % s[2] if s[2] else "")
            out.append(head + " {")
            out.extend(p_body(s[3], ind + "  "))
            out.append(ind + "};")
        elif s[0] == "fwd":
            out.append("%sclass %s" % (ind, s[1]) + (" : %s" % s[2] if s[2] else "") + ";")
        elif s[0] == "delete":
            out.append("%sdelete %s;" % (ind, s[1]))
    return out


# ------------------------------------------------------------------ model

class Node:
    def __init__(self, name, parent):
        self.name = name
        self.parent = parent          # enclosing class
        self.base = None
        self.entries = {}             # name -> Node or None (tombstone), insertion ordered
        self.value = None             # python value for value entries
        self.is_value = False


def py_value(v):
    if v[0] == "num":
        return float(v[1])
    if v[0] == "str":
        return v[1].replace('""', '"')
    if v[0] == "word":
        return v[1]
    return [py_value(x) for x in v[1]]


class Model:
    def __init__(self):
        self.root = Node("config/bin", None)
        self.labels = set()
        self.ambiguous = False        # something happened that the property does not describe (see amb)
        self.amb = set()              # the classes it happened in: queries through them (nested in / derived from them) are not asserted
        self._amb_lookup = False
        self.loaded = 0
        self.seen_paths = set()

    def lookup_logical(self, scope, name):
        n = scope
        while n is not None:
            if name in n.entries:
                if n.entries[name] is None:
                    self.ambiguous = True       # a deleted name on the way to the base: not described by the property
                    self._amb_lookup = True
                    return None
                return n.entries[name]
            n = n.parent
        return None

    def chain(self, node):
        out, n, k = [], node, 0
        while n is not None and k < 100:
            out.append(n)
            n = n.base
            k += 1
        return out

    def lookup(self, node, name):
        for n in self.chain(node):
            if name in n.entries:
                return n.entries[name]       # may be a tombstone (None)
        return None

    def path_of(self, node):
        out = []
        while node is not None:
            out.append(node.name)
            node = node.parent
        return list(reversed(out))

    def define_class(self, scope, name, base, body, is_fwd=False):
        existing = scope.entries.get(name)
        if existing is not None and existing.is_value:
            # the name was a value so far and is a class from now on (the last definition wins, it keeps its place in the order)
            existing.is_value = False
            existing.value = None
            existing.entries = {}
            existing.base = None
            self.labels.add("retyped_entry")
        if existing is None:
            node = Node(name, scope)
            created = True
        else:
            node = existing
            created = False
            if self.path_key(node) in self.seen_paths and self.loaded_in.get(self.path_key(node)) != self.loaded:
                self.labels.add("reopen_later_text")
        if base:
            self._amb_lookup = False
            target = self.lookup_logical(scope, base) if not created else self.lookup_logical(scope, base)
            if self._amb_lookup:
                self.amb.add(node)
            if created and base == name and target is None:
                target = None
            if target is not None and (target is node or node in self.chain(target)):
                # the re-binding would make the relation cyclic: it must be refused (what it resolves to is not asserted)
                self.labels.add("cycle_attempt")
                self.ambiguous = True
                self.amb.add(node)
                self.amb.add(target)
            elif target is not None and target.is_value:
                self.ambiguous = True
                self.amb.add(node)
            else:
                node.base = target
                if target is None:
                    self.labels.add("missing_base")
        if created:
            scope.entries.pop(name, None)          # (a name deleted before is declared anew here)
            scope.entries[name] = node
        self.seen_paths.add(self.path_key(node))
        self.loaded_in.setdefault(self.path_key(node), self.loaded)
        if not is_fwd:
            self.apply(node, body)

    def path_key(self, node):
        return "/".join(self.path_of(node))

    loaded_in = None

    def apply(self, scope, body):
        for s in body:
            k = s[0]
            if k == "class":
                self.define_class(scope, s[1], s[2], s[3])
            elif k == "fwd":
                self.define_class(scope, s[1], s[2], [], is_fwd=True)
            elif k == "delete":
                self.labels.add("delete")
                if s[1] in scope.entries and scope.entries[s[1]] is not None:
                    # deleting an own entry: the property only speaks about hiding inherited ones
                    self.ambiguous = True
                    self.amb.add(scope)
                scope.entries[s[1]] = None
            elif k in ("field", "arrfield", "append"):
                name = s[1]
                existing = scope.entries.get(name)
                if existing is not None and not existing.is_value:
                    # the name was a class so far and is a value from now on: its entries and its base are gone
                    existing.entries = {}
                    existing.base = None
                    existing.is_value = True
                    existing.value = None
                    self.labels.add("retyped_entry")
                    # (classes derived from it have lost their base's content: leave them to the termination assertions)
                    self.amb.add(existing)
                val = py_value(s[2]) if k == "field" else [py_value(x) for x in s[2]]
                if k == "append":
                    self.labels.add("append")
                    inh = self.lookup(scope.base, name) if scope.base is not None else None
                    if existing is not None:
                        self.ambiguous = True          # += on an entry the class already owns: not described by the property
                        self.amb.add(scope)
                    if inh is not None and inh.is_value and isinstance(inh.value, list):
                        val = list(inh.value) + val
                        self.labels.add("append_inherited")
                node = existing or Node(name, scope)
                node.is_value = True
                node.value = val
                if existing is None:
                    scope.entries.pop(name, None)      # (a name deleted before is declared anew here)
                scope.entries[name] = node

    def load(self, body):
        self.loaded += 1
        if self.loaded_in is None:
            self.loaded_in = {}
        self.apply(self.root, body)

    def tainted(self, node):
        """the class, a class it is nested in, or one on its base chain (or nested in a tainted one) saw something the property does not describe"""
        for n in self.chain(node):
            p = n
            while p is not None:
                if p in self.amb:
                    return True
                p = p.parent
        return False

    def all_classes(self):
        out = []

        def walk(n):
            for e in n.entries.values():
                if e is not None and not e.is_value:
                    out.append(e)
                    walk(e)
        walk(self.root)
        return out


def describe_model(m, node, name):
    """expected descriptor of `node >> name` (node is a class of the model)"""
    e = m.lookup(node, name)
    if e is None:
        return None
    d = dict(name=e.name)
    if e.is_value:
        v = e.value
        d.update(isnum=isinstance(v, float), istext=isinstance(v, str), isarr=isinstance(v, list), isclass=False,
                 num=v if isinstance(v, float) else 0.0, text=v if isinstance(v, str) else "", arr=v if isinstance(v, list) else [])
    else:
        own = [x for x in e.entries.values() if x is not None]
        d.update(isnum=False, istext=False, isarr=False, isclass=True, num=0.0, text="", arr=[], count=float(len(own)),
                 names=[x.name for x in own], base=(e.base.name if e.base is not None else None), hier=m.path_of(e))
    return d


def _path_sqf(path):
    return "configFile" + "".join(' >> "%s"' % p for p in path[1:])


def check(case, env):
    r = env.runner(timeout=10.0)
    r.new(vm=0, ops="full")
    m = Model()
    texts = []
    for body in case["texts"]:
        txt = "\n".join(p_body(body))
        texts.append(txt)
        m.load(body)
        rep = r.cmd(dict(op="config_load", vm=0, text=txt))
        if not rep.get("ok"):
            return Result(inconclusive=True, labels=["config_rejected"])
    labs = set(m.labels)
    ctx = "config texts loaded in sequence:\n" + "\n-----\n".join(texts) + "\n"
    classes = m.all_classes()
    nclasses = len(classes) + 1
    # ---- termination + acyclicity (always asserted)
    script = ["T = [];"]
    for c in classes[:12]:
        p = _path_sqf(m.path_of(c))
        script.append('private _c = %s; private _n = 0; while {!isNull _c && _n < %d} do {_c = inheritsFrom _c; _n = _n + 1}; T pushBack _n; T pushBack (isNull (%s >> "nope_zz"));' % (p, nclasses + 3, p))
    try:
        rep = r.run("\n".join(script), vm=0, getvars=["T"], getvars_struct=True, timeout=10.0)
    except RunnerCrash as rc:
        if rc.kind == "timeout":
            return Result(nontrivial=True, labels=sorted(labs | {"nontrivial"}), violation=viol("lookup-does-not-terminate", ctx + "a lookup of a missing entry / inheritsFrom walk did not return within 10 s"))
        raise
    T = vm_value(rep["vars"]["T"]["value"]) if "T" in rep.get("vars", {}) else None
    v = None
    if T is None or any(isinstance(x, float) and x > nclasses for x in T):
        v = viol("inheritance-cyclic", ctx + "walking inheritsFrom does not reach null within %d steps: %s" % (nclasses, T))
    asserted = skipped = 0
    if v is None:
        # ---- full comparison with the model (queries through classes the property does not describe are left out)
        queries = []
        for c in [m.root] + classes[:10]:
            if m.tainted(c):
                skipped += 1
                continue
            for name in CLASSES + FIELDS + ["arr", "nope"]:
                e = m.lookup(c, name)
                if e is not None and not e.is_value and m.tainted(e):
                    continue
                queries.append((c, name))
        asserted = len(queries)
        # one describing function, called per query (the text stays small: parsing 150 copies of it dominated the run time)
        lines = ['T = []; private _q = {private _e = _this; [isNull _e, isNumber _e, isText _e, isArray _e, isClass _e, getNumber _e, getText _e, getArray _e, '
                 'if (isNull _e) then {""} else {configName _e}, if (isNull _e) then {0} else {count _e}, '
                 'if (isNull _e) then {[]} else {private _o = []; for "_i" from 0 to (count _e) - 1 do {_o pushBack (configName (_e select _i))}; _o}, '
                 'if (isNull _e) then {""} else {if (isNull (inheritsFrom _e)) then {""} else {configName (inheritsFrom _e)}}, '
                 'if (isNull _e) then {[]} else {configHierarchy _e}]};']
        for c, name in queries:
            p = _path_sqf(m.path_of(c))
            lines.append('T pushBack ((%s >> "%s") call _q);' % (p, name))
        rep = r.run("\n".join(lines), vm=0, getvars=["T"], getvars_struct=True, timeout=20.0)
        errs = [l for l in rep.get("logs", []) if l["l"] <= 1]
        if errs or "T" not in rep.get("vars", {}):
            v = viol("query-error", ctx + "querying the tree raised: %s" % [l["m"][:120] for l in errs[:3]])
        else:
            T = vm_value(rep["vars"]["T"]["value"])
            for (c, name), got in zip(queries, T):
                exp = describe_model(m, c, name)
                where = "%s >> \"%s\"" % (_path_sqf(m.path_of(c)), name)
                inherited = exp is not None and name not in c.entries
                if inherited:
                    labs.add("inherited_lookup")
                kind = None
                if exp is None:
                    if got[0] is not True:
                        kind, msg = "found-but-undefined", "%s should be null (not defined in the class or an ancestor, or deleted), got %s" % (where, got)
                else:
                    if got[0] is True:
                        kind, msg = "defined-but-not-found", "%s should resolve to %s, got null" % (where, exp)
                    elif [got[1], got[2], got[3], got[4]] != [exp["isnum"], exp["istext"], exp["isarr"], exp["isclass"]]:
                        kind, msg = "type-predicates", "%s: isNumber/isText/isArray/isClass = %s, expected %s" % (where, got[1:5], [exp["isnum"], exp["istext"], exp["isarr"], exp["isclass"]])
                    elif got[5] != exp["num"] or got[6] != exp["text"] or got[7] != exp["arr"]:
                        kind, msg = "value-readback", "%s: getNumber/getText/getArray = %s, expected %s" % (where, got[5:8], [exp["num"], exp["text"], exp["arr"]])
                    elif got[8] != exp["name"]:
                        kind, msg = "configName", "%s: configName = %r expected %r" % (where, got[8], exp["name"])
                    elif exp["isclass"]:
                        if got[9] != exp["count"] or got[10] != exp["names"]:
                            kind, msg = "count-select", "%s: count/select enumerate %s %s, own entries in declaration order are %s" % (where, got[9], got[10], exp["names"])
                        elif got[11] != (exp["base"] or ""):
                            kind, msg = "inheritsFrom", "%s: inheritsFrom names %r, the base class is %r" % (where, got[11], exp["base"])
                        elif got[12] != exp["hier"]:
                            kind, msg = "configHierarchy", "%s: configHierarchy = %s, the enclosing classes are %s" % (where, got[12], exp["hier"])
                if kind:
                    v = viol("%s|%s" % (kind, "inherited" if inherited else "own"), ctx + msg)
                    break
    if v is None:
        # what a script does to an array it got from getArray must not change the config (neither the class nor its base)
        arrs = [c for c in classes[:10] if not m.tainted(c) and (lambda e: e is not None and e.is_value and isinstance(e.value, list))(m.lookup(c, "arr"))][:4]
        if arrs:
            labs.add("getarray_then_mutate")
            lines = ["T = [];"]
            for c in arrs:
                pth = _path_sqf(m.path_of(c))
                lines.append('private _g = getArray (%s >> "arr"); _g pushBack 12345; _g set [0, 777]; {if (_x isEqualType []) then {_x pushBack 54321}} forEach _g;' % pth)
            for c in arrs:
                lines.append('T pushBack (getArray (%s >> "arr"));' % _path_sqf(m.path_of(c)))
            rep = r.run("\n".join(lines), vm=0, getvars=["T"], getvars_struct=True, timeout=20.0)
            if "T" in rep.get("vars", {}):
                T2 = vm_value(rep["vars"]["T"]["value"])
                for c, got2 in zip(arrs, T2):
                    exp2 = m.lookup(c, "arr").value
                    if got2 != exp2:
                        v = viol("getarray-aliases-config", ctx + "after a script changed the array returned by getArray (%s >> \"arr\"), the config reads %s instead of %s" % (_path_sqf(m.path_of(c)), got2, exp2))
                        break
    nontrivial = bool(labs & {"inherited_lookup", "reopen_later_text", "cycle_attempt", "delete", "append_inherited"})
    if m.ambiguous:
        labs.add("partly_asserted" if asserted > 15 else "only_termination_asserted")
    if nontrivial:
        labs.add("nontrivial")
    return Result(nontrivial=nontrivial, labels=sorted(labs), violation=v)
