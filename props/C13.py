"""C13 - preprocessor output equals the reference expansion; strings are inviolate."""
import json, re
from hypothesis import strategies as st
from engine.driver import Result, viol
from engine import ppref

ID = "C13"
LEVEL = "exploration"
HANG_IS_VIOLATION = True     # every generated case terminates under the model: no reply (twice, then 3x confirmation) is a violation
ENGINE = "E-hyp"
TECHNIQUE = "property-based testing: grammar-generated preprocessor sources compared on the token level with an independent reference expander; byte-exact pass-through and string-inviolability checks"
RULE = ("cases = source texts generated from a grammar of plain tokens, double-quoted strings (containing macro names, //, /*, #), // and /* */ comments (multi-line), "
        "backslash-newline, object-/function-like #define (0-3 parameters; bodies with parameters, #p, a##b, other macros, strings), #undef, nested "
        "#ifdef/#ifndef/#else/#endif with directives inside inactive branches, macro uses with nested calls, empty arguments, brackets and strings with commas "
        "inside arguments, macro names as prefixes/suffixes of longer identifiers; a second kind = plain text without directive/macro/comment (byte-exact pass-through); "
        "non-trivial = a macro expansion whose argument or body contains another macro, # or ##, or a string containing a macro name / comment marker, or an inactive "
        "branch containing a directive; distinct = SHA-1 of the case")
LEVEL_TEXT = ("Exploration against a reference model: the implementation's output must have the same token sequence as the reference expander's, every string literal "
              "of an active region must appear byte-identical, nothing of an inactive branch may appear, and text without preprocessor constructs must pass byte for byte.")
LEVEL_NOTE = ("Trusted: the reference expander engine/ppref.py (semantics pinned in DESIGN.md C13), the token comparison, Hypothesis. Not asserted: carriage returns, "
              "whitespace inside stringified arguments, a blank between macro name and '(', recursive macros (C10), __EVAL/__COUNTER__, #include (C14/C16 exercise it).")
ASSUMPTIONS = ["macros only refer to macros defined earlier (no recursion)", "## is generated without surrounding blanks and never forms a macro name",
               "macro call arguments have no leading/trailing blanks"]
SIZES = {"quick": dict(budget_s=45, batch=150), "thorough": dict(budget_s=600, batch=300)}
FLOORS = {"nontrivial": 0.3}

MNAMES = ["A", "B", "C", "FOO", "BAR_1", "Q", "CAT"]
WORDS = ["foo", "bar", "x", "y1", "_z", "call", "select", "w2", "A1", "_A", "A_", "xB", "FOOD", "aFOO", "Q1", "CATS", "1A", "B_1"]
PUNCT = [";", ",", "=", "+", "-", "*", "(", ")", "[", "]", "{", "}", ":", "<", ">"]
STRS = ['"s"', '"A B"', '"FOO(1)"', '"// no comment"', '"/* x */"', '"#define Z 1"', '"a,b"', '"("', '""', '"p q"', '"a\\\\b"', '"c:\\d"']


def _outside_string_and_comment(text, pos):
    """True if text[pos] is neither inside a double-quoted string nor inside a /* */ comment (quotes inside comments do not count)"""
    i, in_str, in_com = 0, False, False
    while i < pos:
        if in_com:
            if text.startswith("*/", i):
                in_com = False
                i += 1
        elif in_str:
            if text[i] == '"':
                in_str = False
        elif text[i] == '"':
            in_str = True
        elif text.startswith("/*", i):
            in_com = True
            i += 1
        i += 1
    return not in_str and not in_com


@st.composite
def _source(draw):
    defined = {}          # name -> nparams (None = object-like), in definition order visible at this point
    lines = []
    dead = [0]
    feats = set()

    def plain_tokens(n_max=5, allow_macros=True, params=()):
        toks = []
        for _ in range(draw(st.integers(0, n_max))):
            c = draw(st.integers(0, 9))
            if c <= 2:
                toks.append(draw(st.sampled_from(WORDS)))
            elif c == 3:
                toks.append(str(draw(st.integers(0, 99))))
            elif c == 4:
                toks.append(draw(st.sampled_from(PUNCT)))
            elif c == 5:
                s = draw(st.sampled_from(STRS))
                toks.append(s)
                if any(m in s for m in MNAMES) or "//" in s or "/*" in s or "#" in s:
                    feats.add("string_with_macro_or_marker")
            elif c <= 8 and allow_macros and defined:
                u = use(draw(st.sampled_from(sorted(defined))), params)
                adj = draw(st.integers(0, 7))
                if adj == 0 and not u.endswith(";"):
                    u = u + draw(st.sampled_from(['"s"', '"A"', '"x y"']))          # a macro directly in front of a string
                    feats.add("macro_adjacent_to_string")
                elif adj == 1:
                    u = draw(st.sampled_from(['"s"', '"B"'])) + u                     # ... and directly behind one
                    feats.add("macro_adjacent_to_string")
                toks.append(u)
                feats.add("macro_use")
            elif params:
                toks.append(draw(st.sampled_from(params)))
            else:
                toks.append(draw(st.sampled_from(WORDS)))
        return toks

    def arg(depth, params):
        c = draw(st.integers(0, 9))
        if c <= 2:
            return draw(st.sampled_from(WORDS + ["1", "42"]))
        if c == 3 and params:
            return draw(st.sampled_from(params))
        if c == 4:
            return draw(st.sampled_from(['"a,b"', '"s"', '"A"']))
        if c == 5:
            return draw(st.sampled_from(["[1,2]", "(a,b)", "{x,y}", "[(1,2),3]", "foo(1,2)"]))
        if c == 6:
            feats.add("empty_argument")
            return ""
        if c <= 8 and defined and depth > 0:
            feats.add("macro_in_argument")
            return use(draw(st.sampled_from(sorted(defined))), params, depth - 1)
        c2 = draw(st.integers(0, 5))
        fnames = sorted(k for k, v in defined.items() if v is not None)
        if c2 == 0 and fnames:
            # the bare name of a function-like macro as (last) word of an argument: left alone
            feats.add("bare_function_macro_name_in_argument")
            return draw(st.sampled_from(["", "x ", "1 + "])) + draw(st.sampled_from(fnames))
        if c2 == 1:
            feats.add("word_adjacent_to_string_in_argument")
            return draw(st.sampled_from(['abc"x"', 'foo"a,b"bar', '"s"y1', 'x"A"', 'a"//"', 'w2"/*"']))
        if c2 == 2:
            # comments and a line continuation inside an argument are removed like anywhere else
            feats.add("comment_in_argument")
            onames = sorted(k for k, v in defined.items() if v is None)
            return draw(st.sampled_from(['a/*c*/', 'x /*c*/', '/*c*/y1', 'a/*c*/b', '/* , ) */x', 'foo/*"*/', 'a\\\nb', 'x/*c*/ + 1'] + [n + "/*c*/" for n in onames[:2]]))
        return draw(st.sampled_from(["a b", "1 + 2", "x"]))

    def use(name, params=(), depth=2):
        np_ = defined[name]
        if np_ is None:
            return name
        if draw(st.integers(0, 12)) == 0:
            return name + " ;"          # function-like name without '(' is left alone
        args = [arg(depth, params) for _ in range(np_)]
        return name + "(" + ",".join(args) + ")"

    def define():
        name = draw(st.sampled_from(MNAMES))
        kind = draw(st.sampled_from(["obj", "obj", "fn", "fn", "fn", "empty"]))
        earlier = {k: v for k, v in defined.items() if k != name}
        saved = dict(defined)
        defined.clear(); defined.update(earlier)        # bodies only refer to *other* macros defined earlier
        try:
            if kind == "empty":
                text, np_ = "#define " + name, None
            elif kind == "obj":
                body = plain_tokens(4)
                if any(re.match(r"[A-Z_0-9]+\(|^[A-Z_0-9]+$", t) and t.split("(")[0] in earlier for t in body):
                    feats.add("macro_in_body")
                text, np_ = "#define " + name + " " + " ".join(body), None
            else:
                k = draw(st.integers(0, 3))
                params = ["p", "q", "r"][:k]
                if params and earlier and draw(st.integers(0, 4)) == 0:
                    # a parameter with the name of a macro: inside this body the name means the parameter
                    params[draw(st.integers(0, k - 1))] = draw(st.sampled_from(sorted(earlier)))
                    feats.add("param_named_like_macro")
                items = []
                for _ in range(draw(st.integers(1, 5))):
                    c = draw(st.integers(0, 9))
                    if params and c <= 2:
                        items.append(draw(st.sampled_from(params)))
                    elif params and c == 3:
                        items.append("#" + draw(st.sampled_from(params)))
                        feats.add("stringify")
                    elif params and c == 4:
                        a = draw(st.sampled_from(params + ["w", "v_"]))
                        b = draw(st.sampled_from(params))
                        items.append(a + "##" + b if draw(st.booleans()) else b + "##_##" + a)
                        feats.add("concat")
                    elif c == 5 and earlier:
                        items.append(use(draw(st.sampled_from(sorted(earlier))), tuple(params)))
                        feats.add("macro_in_body")
                    elif c == 6:
                        items.append(draw(st.sampled_from(['"p"', '"s q"', '"#p"'])))
                    else:
                        items.append(draw(st.sampled_from(WORDS + ["+", ";", "1"])))
                text, np_ = "#define " + name + "(" + ",".join(params) + ") " + " ".join(items), k
        finally:
            defined.clear(); defined.update(saved)
        if draw(st.integers(0, 6)) == 0 and " " in text[8:]:
            # multi-line define with a backslash-newline inside the body
            cut = text.rfind(" ")
            if _outside_string_and_comment(text, cut):          # never inside a string literal or a comment
                text = text[:cut] + " \\\n" + text[cut + 1:]
                feats.add("multiline_define")
        defined[name] = np_
        return text

    def block(depth, active):
        out = []
        for _ in range(draw(st.integers(1, 6))):
            c = draw(st.integers(0, 11))
            if active and len(defined) < 2 and draw(st.booleans()):
                out.append(define())
                continue
            if c <= 3:
                toks = plain_tokens(6, allow_macros=active)
                if not active:
                    dead[0] += 1
                    toks = ["dead%d" % dead[0]] + [t for t in toks]
                out.append(" ".join(toks))
            elif c <= 5:
                if active:
                    out.append(define())
                else:
                    # a directive inside an inactive branch must have no effect
                    if defined and draw(st.booleans()):
                        out.append("#undef " + draw(st.sampled_from(sorted(defined))))      # the macro stays defined
                        feats.add("undef_in_inactive")
                    else:
                        out.append(draw(st.sampled_from(["#define " + draw(st.sampled_from(MNAMES)) + " dead%d" % dead[0], "#foo bar", '"s" #else', '"s" #endif', '  "x y" #define ZQ 1'])))
                    feats.add("directive_in_inactive")
            elif c == 6 and active and defined:
                nm = draw(st.sampled_from(sorted(defined)))
                out.append("#undef " + nm)
                del defined[nm]
            elif c == 7 and draw(st.integers(0, 3)) == 0:
                # a '#' behind a string that starts the line is ordinary text, not a directive
                out.append(draw(st.sampled_from(['"abc" # 2', '  "s" #define ZQ 1', '"s" #endif', '"a" #else x'])))
                feats.add("hash_after_string_at_line_start")
            elif c == 7:
                out.append(draw(st.sampled_from(["// comment A FOO(1) \"x", "   // indented", "x = 1; // trailing B", "/* block A */ y", "/* multi\nline A\n*/", "a /* in */ b"])))
                feats.add("comment")
            elif c <= 9 and depth > 0:
                nm = draw(st.sampled_from(MNAMES))
                neg = draw(st.booleans())
                cond = (nm in defined) != neg
                out.append(("#ifndef " if neg else "#ifdef ") + nm)
                snapshot = dict(defined)
                out.extend(block(depth - 1, active and cond))
                if draw(st.booleans()):
                    out.append("#else")
                    after_then = dict(defined)
                    defined.clear(); defined.update(snapshot)
                    out.extend(block(depth - 1, active and not cond))
                    if not (active and not cond):
                        defined.clear(); defined.update(after_then if (active and cond) else snapshot)
                elif not (active and cond):
                    defined.clear(); defined.update(snapshot)
                out.append("#endif")
                feats.add("conditional")
                if depth < 2:
                    feats.add("nested_conditional")
            else:
                out.append("")
        return out

    lines = block(2, True)
    if defined and draw(st.booleans()):
        # a last line that uses what is still defined: side effects of directives in inactive branches show up here
        lines.append(" ; ".join(use(n, ()) for n in sorted(defined)))
        lines.append("\n".join("#ifdef %s\nyes_%s\n#else\nno_%s\n#endif" % (n, n, n) for n in sorted(defined)[:2]))
        feats.add("final_use_of_all_macros")
    return dict(kind="source", text="\n".join(lines), feats=sorted(feats))


_plain_chars = st.sampled_from(list("abcxyz019 _;,=+-*()[]{}<>:!?&|.'\t") + ['"'])
_plain = st.lists(st.lists(_plain_chars, max_size=20).map("".join), max_size=6).map("\n".join)


def strategy(env):
    return st.one_of(_source(), _source(), _source(), _plain.map(lambda t: dict(kind="plain", text=t, feats=[])))


def _vm(env):
    r = env.runner()
    if env.cache.get("gen") != r.generation:
        r.new(vm=0, ops="full")
        env.cache["gen"] = r.generation
    return r


def check(case, env):
    r = _vm(env)
    text = case["text"]
    labs = ["kind_" + case["kind"]] + list(case.get("feats", []))
    rep = r.cmd(dict(op="preprocess", vm=0, text=text, fresh=True, file="/c13/main.sqf"))
    errs = [l for l in rep.get("logs", []) if l["l"] <= 1]
    v = None
    if case["kind"] == "plain":
        if re.search(r"\b(__\w+|_SQFVM\w*)\b", text):
            return Result(inconclusive=True, labels=labs + ["contains_builtin"])
        exp = '#line 0 "/c13/main.sqf"\n' + text
        if not rep.get("ok") or rep.get("text") != exp:
            v = viol("passthrough", "text without directive, macro or comment was altered\ninput:  %r\noutput: %r\nlogs: %s" % (text, rep.get("text"), [l["m"][:80] for l in errs[:2]]))
        return Result(nontrivial=False, labels=labs, violation=v)
    nontrivial = bool(set(case["feats"]) & {"macro_in_argument", "macro_in_body", "stringify", "concat", "string_with_macro_or_marker", "directive_in_inactive"})
    if nontrivial:
        labs.append("nontrivial")
    try:
        ref = ppref.reference(text)
    except Exception as ex:           # generator produced something the reference does not define
        return Result(inconclusive=True, labels=labs + ["reference_undefined"])
    if not rep.get("ok"):
        v = viol("rejected|" + (str(errs[0]["c"]) if errs else "?"), "valid source was rejected\nsource:\n%s\nlogs: %s" % (text, [l["m"][:100] for l in errs[:3]]))
    else:
        got = rep["text"]
        tg, tr = ppref.tokens(got), ppref.tokens(ref)
        if tg != tr:
            i = 0
            while i < min(len(tg), len(tr)) and tg[i] == tr[i]:
                i += 1
            feat = "+".join(sorted(set(case["feats"]) & {"stringify", "concat", "macro_in_argument", "macro_in_body", "empty_argument", "conditional", "nested_conditional", "directive_in_inactive", "multiline_define", "comment"}))
            if any(t.startswith("dead") for t in tg):
                kind = "inactive-text-in-output"
            else:
                kind = "expansion"
            v = viol("%s|%s" % (kind, feat), "output differs from the reference expansion at token %d\nsource:\n%s\n--- implementation tokens: %s\n--- reference tokens:      %s" % (
                i, text, tg[max(0, i - 5):i + 8], tr[max(0, i - 5):i + 8]))
    return Result(nontrivial=nontrivial, labels=labs, violation=v)
