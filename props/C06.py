"""C06 - str / literals round-trip: printed values and code compile back to equal values."""
import json, struct
from hypothesis import strategies as st
from engine.driver import Result, viol
from engine import sqfgen
from engine.sqfgen import Registry, f32
import props.C01 as C01

ID = "C06"
LEVEL = "exploration"
HANG_IS_VIOLATION = True     # every generated case terminates under the model: no reply (twice, then 3x confirmation) is a violation
ENGINE = "E-hyp"
TECHNIQUE = "property-based testing: round-trip oracles (call compile str v == v, instruction-for-instruction code equality, literal spelling vs. float32 reference, pretty-printer listing equality)"
RULE = ("four case kinds: value = nested values (booleans, strings over bytes 1..255, float32 numbers of <=6 significant digits, arrays depth<=4, code) "
        "injected through the C++ API and round-tripped through str/compile; code = C01 expression trees and statements as code bodies; "
        "literal = numeric/string literal spellings (decimal, exponent, leading dot, $/0x hex, doubled quotes in both quote styles); "
        "pretty = C01 trees printed with redundant/minimal parentheses through the CLI pretty-printer; "
        "non-trivial = string with quote/newline/high byte, array nested >=2, code whose tree needs >=1 parenthesis pair, literal with exponent/hex/leading dot/doubled quote; "
        "distinct = SHA-1 of the case")
LEVEL_TEXT = ("Exploration with exact round-trip oracles; no model of the printer is needed, only equality of values / instruction listings "
              "before and after the trip.")
LEVEL_NOTE = ("Trusted: value injection and structural read-back in runner.cpp, C++ value::operator==, the C01 printer for code bodies, Hypothesis. "
              "Not asserted: NaN/inf printing, numbers needing >6 digits, NUL bytes.")
ASSUMPTIONS = ["numbers are float32 values of decimals with <=6 significant digits, exponent in [-37,38]",
               "literal reference = Python float(text) rounded to float32 (the same double->float path as the parser)"]
SIZES = {"quick": dict(budget_s=45, batch=150), "thorough": dict(budget_s=600, batch=300)}
FLOORS = {"nontrivial": 0.3}


def _setup(env):
    C01._setup(env)


def _nearest_f32(text, approx):
    """the single-precision value nearest to the exact value the literal spells (ties to even), not the double-rounded one"""
    import numpy as np
    from fractions import Fraction
    from decimal import Decimal
    if text[0] == "$":
        exact = Fraction(int(text[1:], 16))
    elif text[:2] in ("0x", "0X"):
        exact = Fraction(int(text, 16))
    else:
        exact = Fraction(Decimal(text))
    g = np.float32(approx)
    if not np.isfinite(g):
        return float(g)
    cands = [g, np.nextafter(g, np.float32(np.inf)), np.nextafter(g, np.float32(-np.inf))]
    best = None
    for c in cands:
        if not np.isfinite(c):
            continue
        dist = abs(Fraction(float(c)) - exact)
        even = (int(np.float32(c).view(np.uint32)) & 1) == 0
        key = (dist, 0 if even else 1)
        if best is None or key < best[0]:
            best = (key, float(c))
    return best[1]


def _bits(x):
    return "%08x" % struct.unpack("I", struct.pack("f", x))[0]


_num = st.tuples(st.integers(-999999, 999999), st.one_of(st.integers(-37, 32), st.integers(-37, 32), st.integers(-51, -38))).map(lambda t: float("%de%d" % t)).filter(lambda x: abs(x) < 3e38).map(lambda x: {"t": "bits", "v": _bits(f32(x))})
_chars = st.one_of(st.sampled_from(list('"\'\n\t {}[];,\\#/*')), st.integers(1, 255).map(chr), st.sampled_from(list("abcXYZ019")))
_str = st.lists(_chars, max_size=12).map(lambda l: {"t": "str", "v": "".join(l)})
_code_txt = st.sampled_from(["", "1", "a = 1; b", "_x + 1", "[1,2] select 0", "if (a) then {b} else {c}", "-1", "1 - -1", "private _a = 2; _a", "(1 + 2) * 3", "1 + (2 - 3)", "- (1 + 2)", "!(a && b)", '"q""q"', "{{1}}", "a # 1 # 2"]).map(lambda t: {"t": "code", "v": t})
_leaf = st.one_of(_num, _num, st.booleans().map(lambda b: {"t": "bool", "v": b}), _str, _str, _code_txt)
_value = st.recursive(_leaf, lambda ch: st.lists(ch, max_size=4).map(lambda l: {"t": "arr", "v": l}), max_leaves=12)

_literals = st.one_of(
    st.tuples(st.integers(0, 999999), st.one_of(st.integers(-30, 30), st.integers(-30, 30), st.integers(-50, -31)), st.sampled_from(["e", "E"]), st.sampled_from(["", "+", "-"])).map(
        lambda t: "%d%s%s%d" % (t[0], t[2], t[3] if t[1] >= 0 else "-", abs(t[1]))),
    st.tuples(st.integers(0, 99999), st.integers(0, 99999)).map(lambda t: "%d.%d" % t),
    st.integers(0, 999999).map(lambda i: ".%d" % i),
    st.tuples(st.integers(0, 9999), st.integers(0, 999), st.integers(-20, 20)).map(lambda t: "%d.%de%d" % t),
    st.integers(0, 99999999).map(str),
    st.integers(0, 0xFFFFFF).map(lambda i: "$%X" % i),
    st.integers(0, 0xFFFFFF).map(lambda i: "0x%x" % i),
    st.integers(0, 0xFFFFFFF).map(lambda i: "0x%X" % i),
    st.sampled_from(["0", "00", "0.0", "1e0", "16777217", "0x0", "$0", "1e38", "3.40282e38", "1e-37", "007", "1.5e+3", "1e-40", "2.5e-39", "1.4e-45", "1e-46", "1.17549e-38", "9.99995e-41",
                     "1e-320", "1e-400", "0x8000000000000000", "0xFFFFFFFFFFFFFFFF", "$10000000000000000", "0x7FFFFFFFFFFFFFFF", "1.0000000596046447754", "16777217.0000000000001", "0.000000000000000000000000000000000000000000001"]),
)
_strlit = st.tuples(st.sampled_from(['"', "'"]), st.lists(st.one_of(st.sampled_from(list('"\'\n {}')), st.integers(1, 255).map(chr), st.sampled_from(list("abc"))), max_size=10))


def strategy(env):
    _setup(env)
    reg = env.cache["reg"]
    b, u, n = C01._pools(reg)
    by_level = reg.by_level()
    lvl_names = st.sampled_from(sorted(by_level)).flatmap(lambda l: st.sampled_from(by_level[l]))
    n = [x for x in n if reg.cls.get(x) == "n"]
    u = [x for x in u if reg.cls.get(x, "u") in ("u", "bu")]
    def _six_digits(t):
        # the property covers numbers whose shortest decimal form has <= 6 significant digits
        if isinstance(t, list):
            if len(t) == 2 and t[0] == "num" and t[1] == "16777216":
                return ["num", "65536"]
            return [_six_digits(x) for x in t]
        return t
    trees = C01._trees(reg, lvl_names.filter(lambda x: x != "."), st.sampled_from(u), st.sampled_from(n), 8).map(_six_digits)
    choices = st.lists(st.integers(0, 255), max_size=40)
    stmts = st.lists(st.one_of(trees.map(lambda t: ["expr", t]),
                               st.tuples(st.sampled_from(["a", "_x", "Foo"]), trees).map(lambda t: ["assign", t[0], t[1]]),
                               st.tuples(st.sampled_from(["_x", "_Y"]), trees).map(lambda t: ["passign", t[0], t[1]])), min_size=0, max_size=3)
    return st.one_of(
        _value.map(lambda v: dict(mode="value", value=v)),
        st.tuples(stmts, choices).map(lambda t: dict(mode="code", stmts=t[0], choices=t[1])),
        st.tuples(stmts, choices).map(lambda t: dict(mode="pretty", stmts=t[0], choices=t[1])),
        _literals.map(lambda t: dict(mode="literal", text=t)),
        _strlit.map(lambda t: dict(mode="strlit", quote=t[0], chars="".join(t[1]))),
    )


def _nontrivial_value(v, depth=0):
    if v["t"] == "str":
        return any(c in v["v"] for c in '"\n') or any(ord(c) > 127 for c in v["v"])
    if v["t"] == "arr":
        return depth >= 1 or any(_nontrivial_value(e, depth + 1) for e in v["v"])
    if v["t"] == "code":
        return "(" in v["v"]
    return False


def _needs_parens(stmts, reg):
    for s in stmts:
        p = sqfgen.Printer(reg, [], minimal_ws=True)
        p.statements([s])
        if "(" in p.tokens:
            return True
    return False


def _vm(env):
    _setup(env)
    return env.runner()


def check(case, env):
    r = _vm(env)
    reg = env.cache["reg"]
    mode = case["mode"]
    labs = ["mode_" + mode]
    v = None
    nontrivial = False
    if mode == "value":
        nontrivial = _nontrivial_value(case["value"])
        r.cmd(dict(op="clearvars", vm=0))
        r.cmd(dict(op="setvar", vm=0, name="v", value=case["value"]))
        rep = r.run("s = str v; r = call compile s; eq = r isEqualTo v;", vm=0, getvars=["s", "r", "eq", "v"], getvars_struct=True)
        errs = [l for l in rep.get("logs", []) if l["l"] <= 1]
        eq = "true" if rep.get("vars", {}).get("eq", {}).get("value", {}).get("v") is True else "false"
        cpp = r.cmd(dict(op="eqhash_vars", vm=0, a="v", b="r")) if "r" in rep.get("vars", {}) else dict(eq=False)
        same_struct = rep.get("vars", {}).get("r", {}).get("value") == rep.get("vars", {}).get("v", {}).get("value")
        if errs or rep.get("result") not in ("ok", "empty") or eq != "true" or not cpp["eq"] or not same_struct:
            kind = "code" if '"code"' in json.dumps(case["value"]) else ("string" if '"str"' in json.dumps(case["value"]) else "number")
            v = viol("value-roundtrip|" + kind, "call compile str v is not equal to v\nvalue: %s\nstr v: %r\nback: %s\nisEqualTo=%s C++==%s logs=%s" % (
                json.dumps(case["value"])[:600], rep.get("vars", {}).get("s", {}).get("value", {}).get("v"), json.dumps(rep.get("vars", {}).get("r", {}).get("value"))[:400], eq, cpp.get("eq"), [l["m"][:100] for l in errs[:2]]))
    elif mode in ("code", "pretty"):
        stmts = [[s[0]] + ([s[1]] if s[0] != "expr" else []) + [C01._force(s[-1], reg)] for s in case["stmts"]]
        nontrivial = _needs_parens(stmts, reg)
        body = sqfgen.print_statements(stmts, reg, case["choices"])
        expected = sqfgen.statements_postorder(stmts, reg)
        if mode == "code":
            r.cmd(dict(op="clearvars", vm=0))
            rep = r.run("c = {" + body + "}; s = str c; c2 = call compile s; eq = c2 isEqualTo c;", vm=0, getvars=["c", "s", "c2", "eq"], getvars_struct=True)
            errs = [l for l in rep.get("logs", []) if l["l"] <= 1]
            vs = rep.get("vars", {})
            lc = vs.get("c", {}).get("value", {}).get("v")
            lc2 = vs.get("c2", {}).get("value", {}).get("v")
            if lc != expected:
                return Result(inconclusive=True, labels=labs + ["original_listing_differs_from_reference(C01)"])
            if errs or lc2 != lc or vs.get("eq", {}).get("value", {}).get("v") is not True:
                v = viol("code-roundtrip", "compile str c is not instruction-for-instruction equal to c\nbody: %r\nstr c: %r\noriginal: %s\nrecompiled: %s\nlogs: %s" % (
                    body, vs.get("s", {}).get("value", {}).get("v"), json.dumps(lc), json.dumps(lc2), [l["m"][:100] for l in errs[:2]]))
        else:
            a1 = r.cmd(dict(op="asm", vm=0, sqf=body, deep=True))
            pt = r.cmd(dict(op="pretty", vm=0, sqf=body))
            a2 = r.cmd(dict(op="asm", vm=0, sqf=pt.get("text", ""), deep=True))
            if not a1.get("ok"):
                return Result(inconclusive=True, labels=labs + ["input_rejected"])
            if not a2.get("ok") or a1["asm"] != a2["asm"]:
                v = viol("pretty-print", "pretty-printed text compiles to a different instruction sequence\ninput: %r\npretty: %r\noriginal: %s\npretty:   %s" % (
                    body, pt.get("text"), json.dumps(a1["asm"]), json.dumps(a2.get("asm"))))
    elif mode == "literal":
        t = case["text"]
        nontrivial = any(c in t for c in "eE$x") or t.startswith(".")
        if t[0] == "$":
            ref = float(int(t[1:], 16))
        elif t[:2] in ("0x", "0X"):
            ref = float(int(t, 16))
        else:
            ref = float(t)
        ref = _nearest_f32(t, ref)
        r.cmd(dict(op="clearvars", vm=0))
        rep = r.run("x = " + t + ";", vm=0, getvars=["x"], getvars_struct=True)
        got = rep.get("vars", {}).get("x", {}).get("value", {})
        if got.get("t") != "SCALAR" or got.get("bits") != _bits(ref):
            v = viol("literal|" + ("hex" if t[0] in "$" or t[:2] == "0x" else "decimal"), "literal %s evaluates to %s (bits %s), nearest float32 is %r (bits %s)" % (t, got.get("v"), got.get("bits"), ref, _bits(ref)))
    elif mode == "strlit":
        q, chars = case["quote"], case["chars"]
        nontrivial = q in chars or "\n" in chars
        lit = q + chars.replace(q, q + q) + q
        r.cmd(dict(op="clearvars", vm=0))
        rep = r.run("x = " + lit + ";", vm=0, getvars=["x"], getvars_struct=True)
        got = rep.get("vars", {}).get("x", {}).get("value", {})
        if got.get("t") != "STRING" or got.get("v") != chars:
            v = viol("string-literal", "string literal %r denotes %r, expected %r" % (lit, got.get("v"), chars))
    if nontrivial:
        labs.append("nontrivial")
    return Result(nontrivial=nontrivial, labels=labs, violation=v)
