"""C20 - runs are deterministic and VM instances are isolated from each other."""
import json, re
from hypothesis import strategies as st
from engine.driver import Result, viol
from engine.runner import RunnerCrash, sanitizer_signature

ID = "C20"
LEVEL = "exploration"
ENGINE = "E-thr"
FLAVOURS = ("asan", "tsan")
TECHNIQUE = "metamorphic property-based testing: generated program pairs (P, Q); the log of P in a fresh VM of a fresh process is the reference; it is compared byte-wise with P after P, P after Q (VM created before / after Q ran), P beside Q on two threads (ASan build) and P beside Q with both VMs constructed concurrently (ThreadSanitizer build, any report between the two independent VMs is a violation)"
RULE = ("cases = (P, Q, configs) with P and Q sequences of 1-6 statements from pools of observers and mutators of state that could be shared between instances: number "
        "formatting mode (toFixed), __COUNTER__, #define, variables of all namespaces, config classes and values, arrays returned for missing config/objects (mutated in place), "
        "nular operators returning arrays, type names, hashmaps, object/group/marker/script-handle identifiers, diagnostics of runtime errors, extensions; six settings per case; "
        "non-trivial = Q contains a mutator of a category that P observes; distinct = SHA-1 of the case")
LEVEL_TEXT = ("Exploration: every setting runs in a freshly started process, the reference is P alone; any byte difference in P's ordered log (level, code, text) or result, a "
              "crash, or a ThreadSanitizer report while two independent VMs run on two threads is a violation.")
LEVEL_NOTE = ("Trusted: the runner's pair_threads scenario, process restart per setting (so that no earlier case contaminates a reference), TSan/ASan. The time and random "
              "operators are excluded by construction. Thread interleavings are whatever the OS schedules: a difference is a violation, equality is not a proof.")
ASSUMPTIONS = ["the time and random operators are not used", "every setting starts from a fresh process"]
SIZES = {"quick": dict(budget_s=45, batch=40), "thorough": dict(budget_s=600, batch=100)}
FLOORS = {"nontrivial": 0.4}

BASE_CONFIG = 'class CfgVehicles { class Car { scope = 2; }; };\n'
Q_CONFIGS = [None, 'class CfgShared { v = 7; arr[] = {1,2}; class Sub { t = "x"; }; };\n', 'class CfgShared { v = 8; };\nclass CfgOther { w = 1; };\n']
P_CONFIGS = [None, None, 'class CfgShared { v = 1; arr[] = {5}; };\n']

# (tag, text, mutates, observes)
FMT_MUT = [("tf2", "toFixed 2;", "fmt"), ("tf0", "toFixed 0;", "fmt"), ("tf6", "toFixed 6;", "fmt"), ("tfr", "toFixed -1;", "fmt"),
           ("tfx", "__EXEC(toFixed 3)\n", "fmt")]      # print mode set by the preprocessor (expression evaluated outside of execute)
FMT_OBS = [
    ("f1", 'diag_log ["f1", str 1.23456789];'), ("f2", 'diag_log ["f2", str [1/3, 2.5, 100000, -0.5]];'), ("f3", 'diag_log ["f3", 1/3 toFixed 4];'),
    ("f4", 'diag_log ["f4", format ["%1|%2", 1/3, 1e10]];'), ("f7", 'diag_log ["f7", __EVAL(1/3)];'), ("f5", 'diag_log ["f5", 2 + 2.25];'), ("f6", 'diag_log ["f6", str createHashMapFromArray [[1.5, 2.5]]];'),
]
ARR_NULARS = ["allUnits", "allMapMarkers", "allDead", "vehicles", "allPlayers", "playableUnits", "switchableUnits", "allCurators", "allMissionObjects \"\""]
NULL_ARR_EXPR = ['getArray (configFile >> "Nope" >> "a")', 'getArray configNull', 'units grpNull', 'crew objNull', 'weapons objNull', 'magazines objNull', 'getPos objNull',
                 'position objNull', 'velocity objNull', 'allVariables objNull', 'waypoints grpNull', 'configProperties [configNull]', '"" splitString ","', 'allVariables uiNamespace',
                 'getArray (configFile >> "CfgShared" >> "v")', 'configHierarchy configNull', 'keys createHashMap', 'values createHashMap']
GEN = []   # (tag, text, mutated categories, observed categories)


def _g(tag, text, mut=(), obs=()):
    GEN.append((tag, text, set(mut), set(obs)))


_g("c1", 'diag_log ["c1", __COUNTER__, __COUNTER__];', ["counter"], ["counter"])
_g("c2", 'diag_log ["c2", __COUNTER__];', ["counter"], ["counter"])
_g("c3", '__COUNTER_RESET__ diag_log ["c3", __COUNTER__];', ["counter"], ["counter"])
_g("d1", '#define SHARED_DEF 5\n', ["define"], [])
_g("d2", '#ifdef SHARED_DEF\ndiag_log ["d2", "defined", SHARED_DEF];\n#else\ndiag_log ["d2", "undefined"];\n#endif\n', [], ["define"])
_g("v1", 'GV1 = 42;', ["var"], [])
_g("v2", 'uiNamespace setVariable ["UV1", "u"]; profileNamespace setVariable ["PV1", 3]; parsingNamespace setVariable ["XV1", [1]];', ["var"], [])
_g("v3", 'diag_log ["v3", isNil "GV1", uiNamespace getVariable ["UV1", "unset"], profileNamespace getVariable ["PV1", "unset"], parsingNamespace getVariable ["XV1", "unset"]];', [], ["var"])
_g("v4", 'diag_log ["v4", allVariables missionNamespace, allVariables uiNamespace];', [], ["var"])
_g("k1", 'diag_log ["k1", isClass (configFile >> "CfgShared"), getNumber (configFile >> "CfgShared" >> "v"), getArray (configFile >> "CfgShared" >> "arr"), isClass (configFile >> "CfgOther")];', [], ["config"])
_g("k2", 'diag_log ["k2", count configFile, (configProperties [configFile]) apply {configName _x}];', [], ["config"])
_g("k3", '(getArray (configFile >> "CfgShared" >> "arr")) pushBack 99;', ["config"], [])
for i, e in enumerate(NULL_ARR_EXPR):
    _g("n%dm" % i, '(%s) pushBack "leak%d";' % (e, i), ["defaults"], [])
    _g("n%do" % i, 'diag_log ["n%do", %s];' % (i, e), [], ["defaults"])
for i, e in enumerate(ARR_NULARS):
    _g("a%dm" % i, '(%s) pushBack "leak";' % e, ["defaults"], [])
    _g("a%do" % i, 'diag_log ["a%do", %s];' % (i, e), [], ["defaults"])
_g("t1", 'diag_log ["t1", typeName createHashMap, typeName 1, typeName "", typeName [], typeName {}, typeName configFile, typeName objNull, typeName grpNull, typeName west, typeName true];', [], ["type"])
_g("t2", 'diag_log ["t2", str (createHashMapFromArray [[1,2],["a",3],[[1],4],[true,5]])];', [], ["type"])
_g("t3", 'diag_log ["t3", [3,"a",1,[2]] isEqualTypeArray [0,"",0,[]], 1 isEqualType "", [1,[2]] isEqualTo [1,[2]]];', [], ["type"])
_g("t4", 'private _h = createHashMap; _h set ["k", 1]; _h set [[1,2], 2]; diag_log ["t4", _h get "k", _h get [1,2], count _h];', ["type"], ["type"])
_g("o1", 'private _o = "Car" createVehicle [0,0,0]; diag_log ["o1", str _o, typeOf _o, count vehicles];', ["ids"], ["ids"])
_g("o2", 'private _g = createGroup west; diag_log ["o2", str _g, groupId _g, side _g];', ["ids"], ["ids"])
_g("o3", 'private _g = createGroup east; private _u = _g createUnit ["Car", [0,0,0], [], 0, "NONE"]; diag_log ["o3", str _u, count allUnits, count units _g];', ["ids"], ["ids"])
_g("o4", 'createMarker ["mk1", [1,2]]; diag_log ["o4", allMapMarkers, markerPos "mk1"];', ["ids"], ["ids"])
_g("o5", 'private _h = [] spawn {}; diag_log ["o5", str _h, scriptDone _h];', ["ids"], ["ids"])
_g("o6", 'diag_log ["o6", count allUnits, count vehicles, allMapMarkers];', [], ["ids"])
_g("e1", 'diag_log ["e1", 1 + "a"];', [], ["error"])
_g("e2", 'private _x = [1,2] select 5; diag_log ["e2", _x];', [], ["error"])
_g("e3", 'diag_log ["e3", undefinedVariableXyz];', [], ["error"])
_g("x1", 'diag_log ["x1", "nope" callExtension "x"];', ["ext"], ["ext"])
_g("m1", 'diag_log ["m1", str {a + 1}, toUpper "abc", "a,b" splitString ",", [1,2,3] apply {_x * 2}];', [], ["misc"])
_g("m2", 'diag_log ["m2", supportInfo "n:pi", count (supportInfo "u:str*")];', [], ["misc"])
_g("m3", 'diag_log ["m3", call compile "1 + 1", parseNumber "12.5", [1,2] + [3]];', [], ["misc"])
# listings of the operator tables: their order must not depend on which kinds of VM were created before in the process
_g("m4", 'diag_log ["m4", cmds__ select [(count cmds__) - 6, 6], cmds__ select [900, 6], cmdsimplemented__ select [(count cmdsimplemented__) - 6, 6], count cmds__];', [], ["type"])
_g("m5", 'diag_log ["m5", typeName 1, typeName "", typeName [], typeName {}];', ["type"], [])
GEN_BY_TAG = {g[0]: g for g in GEN}


@st.composite
def _cases(draw):
    family = draw(st.sampled_from(["fmt", "general", "general", "general"]))
    if family == "fmt":
        p = []
        if draw(st.integers(0, 3)) == 0:
            p.append(draw(st.sampled_from([m[0] for m in FMT_MUT])))
        p += draw(st.lists(st.sampled_from([o[0] for o in FMT_OBS]), min_size=1, max_size=4))
        q = draw(st.lists(st.sampled_from([m[0] for m in FMT_MUT] + [o[0] for o in FMT_OBS]), min_size=1, max_size=4))
        if not any(t.startswith("tf") for t in q):
            q.insert(0, draw(st.sampled_from([m[0] for m in FMT_MUT])))
        return dict(family=family, p=p, q=q, p_config=None, q_config=None, q_ops="full")
    obs_tags = [g[0] for g in GEN if g[3]]
    mut_tags = [g[0] for g in GEN if g[2]]
    p = draw(st.lists(st.sampled_from(obs_tags), min_size=1, max_size=6))
    # bias Q towards mutators of what P observes
    want = set().union(*[GEN_BY_TAG[t][3] for t in p])
    related = [g[0] for g in GEN if g[2] & want]
    q = draw(st.lists(st.sampled_from((related * 3 if related else []) + mut_tags), min_size=1, max_size=6))
    # the matching mutator of an in-place mutated default
    for t in list(p):
        if re.fullmatch(r"[na]\d+o", t) and draw(st.booleans()):
            q.append(t[:-1] + "m")
    return dict(family=family, p=p, q=q, p_config=draw(st.sampled_from(P_CONFIGS)), q_config=draw(st.sampled_from(Q_CONFIGS)), q_ops=draw(st.sampled_from(["full", "full", "basic"])))


def strategy(env):
    return _cases()


def _text(tags, family):
    table = {m[0]: m[1] for m in FMT_MUT}
    table.update({o[0]: o[1] for o in FMT_OBS})
    table.update({g[0]: g[1] for g in GEN})
    return "\n".join(table[t] for t in tags) + "\n"


def _out(rep, cfg_rep=None):
    lines = []
    if cfg_rep is not None:
        lines.append("config_ok=%s" % cfg_rep.get("ok", cfg_rep))
    for l in rep.get("logs", []):
        lines.append("%s|%s|%s" % (l.get("l"), l.get("c"), l.get("m")))
    lines.append("result=%s ok=%s" % (rep.get("result"), rep.get("ok", rep.get("stage"))))
    return lines


def _run_in(r, vm, cfg, text, ops="full", create=True):
    if create:
        r.new(vm=vm, ops=ops)
    crep = r.cmd(dict(op="config_load", vm=vm, text=BASE_CONFIG + (cfg or "")))
    rep = r.run(text, vm=vm, pp=True, abort_on_fail=True)
    lines = ["config_ok=%s" % crep.get("ok")] + ["%s|%s|%s" % (l.get("l"), l.get("c"), l.get("m")) for l in crep.get("logs", [])]
    for l in rep.get("logs", []):
        lines.append("%s|%s|%s" % (l.get("l"), l.get("c"), l.get("m")))
    lines.append("result=%s" % rep.get("result", rep.get("stage")))
    return lines, rep


def _pair_lines(side):
    lines = ["config_ok=%s" % side.get("config_ok")]
    for l in side.get("logs", []):
        lines.append("%s|%s|%s" % (l.get("l"), l.get("c"), l.get("m")))
    lines.append("result=%s" % side.get("result", side.get("stage")))
    return lines


def _diff_tags(ref, got):
    if len(ref) != len(got):
        return ["shape"]
    tags = set()
    for a, b in zip(ref, got):
        if a != b:
            m = re.search(r'\[DIAG_LOG\] \["?([a-z]+\d+o?)"?,', a) or re.search(r'\[DIAG_LOG\] \["?([a-z]+\d+o?)"?,', b)
            tags.add(m.group(1) if m else "other")
    return sorted(tags)


def check(case, env):
    fam = case["family"]
    ptext = _text(case["p"], fam)
    qtext = _text(case["q"], fam)
    pcfg, qcfg = case.get("p_config"), case.get("q_config")
    labs = {"family_" + fam}
    if fam == "fmt":
        nontrivial = True
    else:
        pobs = set().union(*[GEN_BY_TAG[t][3] for t in case["p"]])
        qmut = set().union(*[GEN_BY_TAG[t][2] for t in case["q"]]) | ({"config"} if qcfg else set())
        nontrivial = bool(pobs & qmut)
        for c in pobs & qmut:
            labs.add("shared_" + c)
    if nontrivial:
        labs.add("nontrivial")
    r = env.runner(timeout=20.0)
    results = {}
    stderr = {}
    # A: alone, fresh process (reference); A2: P again in a second fresh VM of the same process
    r.restart()
    ref, rep = _run_in(r, 0, pcfg, ptext)
    results["again_in_second_vm"], _ = _run_in(r, 1, pcfg, ptext)
    # B: Q first (other VM), then a VM created afterwards runs P
    r.restart()
    _run_in(r, 0, qcfg, qtext, ops=case["q_ops"])
    results["after_q_vm_created_later"], _ = _run_in(r, 1, pcfg, ptext)
    # B2: both VMs exist, Q runs, then P
    r.restart()
    r.new(vm=0, ops=case["q_ops"])
    r.new(vm=1, ops="full")
    _run_in(r, 0, qcfg, qtext, create=False)
    results["after_q_vm_created_before"], _ = _run_in(r, 1, pcfg, ptext, create=False)
    # C: beside, two threads, VMs created before
    r.restart()
    r.new(vm=0, ops="full")
    r.new(vm=1, ops=case["q_ops"])
    rep = r.cmd(dict(op="pair_threads", a=0, b=1, p=ptext, q=qtext, pp=True, p_config=BASE_CONFIG + (pcfg or ""), q_config=BASE_CONFIG + (qcfg or "")))
    results["beside_q_two_threads"] = _pair_lines(rep["p"])
    # C2: beside, VMs constructed concurrently inside the threads, ThreadSanitizer build
    rt = env.runner("tsan", timeout=30.0)
    rt.restart()
    rep2 = rt.cmd(dict(op="pair_threads", a=0, b=1, create=True, p=ptext, q=qtext, pp=True, p_config=BASE_CONFIG + (pcfg or ""), q_config=BASE_CONFIG + (qcfg or ""), q_ops=case["q_ops"]))
    results["beside_q_concurrent_creation"] = _pair_lines(rep2["p"])
    tsan = rep2.get("stderr", "")
    ref_pair = ["config_ok=True"] + ref[1:] if ref and ref[0].startswith("config_ok") else ref
    ctx = "P:\n%s\nQ (ops %s):\n%s\nP config: %r, Q config: %r\nreference output of P (alone, fresh process):\n  %s\n" % (
        ptext, case["q_ops"], qtext, pcfg, qcfg, "\n  ".join(ref))
    v = None
    # objects and groups print their heap address (as the game does): compared with the address masked first, the raw text afterwards
    mask = lambda lines: [re.sub(r"0x[0-9a-f]{6,}", "0xADDR", x) for x in lines]
    for masked in (True, False):
        for setting, got in results.items():
            a, b = (mask(ref), mask(got)) if masked else (ref, got)
            if a != b:
                tags = _diff_tags(a, b)
                cats = sorted({(GEN_BY_TAG[t][3] and sorted(GEN_BY_TAG[t][3])[0]) if t in GEN_BY_TAG else ("fmt" if fam == "fmt" else t) for t in tags})
                if not masked:
                    cats = ["heap-address-in-text"]
                    labs.add("prints_heap_address")
                kind = "determinism" if setting == "again_in_second_vm" else "isolation"
                v = viol("%s|%s|%s" % (kind, fam, ",".join(cats)), ctx + "setting %s gives a different output (lines %s):\n  %s" % (setting, tags, "\n  ".join(got)))
                break
        if v is not None:
            break
    if v is None and "ThreadSanitizer" in tsan:
        m = re.search(r"WARNING: ThreadSanitizer: ([a-z -]+).*?\n\s+#0 (.+?) (/repo/src/|/usr/)([^\s:]+)", tsan, re.S)
        where = m.group(4).split("/")[-1] if m else "?"
        frames = re.findall(r"#\d+ (\S+?)\(?[^ ]* /repo/src/([^\s:]+):(\d+)", tsan[:6000])
        top = frames[0] if frames else ("?", "?", "0")
        v = viol("tsan|%s|%s" % (top[1], top[0][:60]), ctx + "ThreadSanitizer report while P and Q ran in two independent VMs on two threads:\n" + tsan[:2500])
    return Result(nontrivial=nontrivial, labels=sorted(labs), violation=v)


def on_crash(case, env, rc):
    if rc.kind == "timeout":
        return Result(nontrivial=True, labels=["hang"], violation=viol("hang|%s" % case.get("family"), "no reply within the watchdog\ncase: %s" % json.dumps(case)))
    return Result(nontrivial=True, labels=["crash"], violation=viol("crash|%s|%s" % (case.get("family"), sanitizer_signature(rc.detail)), "the process crashed\ncase: %s\n%s" % (json.dumps(case), rc.detail[-1500:])))
