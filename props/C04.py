"""C04 - runtime errors are never silent, never skipped over, never leak into later code.

Generated programs with injected faults at generated position classes, run as
histories of 1-4 runs on one VM; a Python model of the error protocol predicts
markers (T), handler entries (H), the run verdict and the stack-trace line.
"""
import json
from hypothesis import strategies as st
from engine.driver import Result, viol

ID = "C04"
LEVEL = "exploration"
HANG_IS_VIOLATION = True     # every generated case terminates under the model: no reply (twice, then 3x confirmation) is a violation
ENGINE = "E-hyp"
TECHNIQUE = "property-based testing with fault injection: generated programs with erroring operations at generated positions, histories of runs on one VM, compared with a model of the error/handler protocol"
RULE = ("cases = histories of 1-4 runs on one VM; each run is a program of marker statements, nested call/forEach blocks, except__ constructs "
        "(nested up to 3), try/catch constructs (transparent for runtime errors) and spawned scripts with 0-2 injected faults (operator type error, assert, non-boolean result in the exit behaviour of "
        "count/select/findIf/while, clobbered for-variable; optionally as right side of an assignment, as last statement, inside handler code); "
        "non-trivial = a fault in a behaviour / last-statement / spawned / nested-handler / in-handler / assignment position, or a history of >=2 runs "
        "containing a fault; distinct = SHA-1 of the history")
LEVEL_TEXT = ("Exploration: for every generated history the markers executed, the handler entries (exactly once, _exception set), the verdict "
              "of each run (failed iff an unhandled fault occurred) and the line named by the stack trace must equal the model.")
LEVEL_NOTE = ("Trusted: the protocol model in this file, the runner's log capture, Hypothesis. Not asserted: message wording, CLI exit code, "
              "relative order of markers of a spawned script and its starter.")
ASSUMPTIONS = ["each statement is printed on its own line so that the stack-trace line identifies the statement",
               "for spawned faulting scripts only the verdict, the trace line and the spawned script's own markers are asserted"]
SIZES = {"quick": dict(budget_s=45, batch=100), "thorough": dict(budget_s=600, batch=200)}
FLOORS = {"nontrivial": 0.5}

FAULTS = {
    "type": '1 + "a"',
    "assert": "assert false",
    "count": "{5} count [1,2]",
    "select": "[1,2] select {5}",
    "findif": "[1,2] findIf {5}",
    "while": "while {5} do {}",
    "index": "[1] select 5",
}
BEHAVIOUR = {"count", "select", "findif", "while"}
VALUE_FAULTS = ["type", "count", "select", "findif"]   # usable as right side of an assignment


@st.composite
def _program(draw, depth=3, allow_spawn=True):
    counter = {"k": 0}

    def nk():
        counter["k"] += 1
        return counter["k"]

    def fault():
        if draw(st.integers(0, 3)) == 0:
            return ["fault", draw(st.sampled_from(VALUE_FAULTS)), "assign", nk()]
        return ["fault", draw(st.sampled_from(sorted(FAULTS))), "plain", nk()]

    def lines(d, in_spawn, n_max=4, handler=False):
        out = []
        for _ in range(draw(st.integers(0, n_max))):
            kinds = ["m", "m", "m", "fault"]
            if d > 0:
                kinds += ["call", "loop", "except", "except", "exit", "try"]
                if allow_spawn and not in_spawn and not handler:
                    kinds += ["spawn"]
            k = draw(st.sampled_from(kinds))
            if k == "m":
                out.append(["m", nk()])
            elif k == "fault":
                out.append(fault())
            elif k == "call":
                out.append(["call", lines(d - 1, in_spawn)])
            elif k == "loop":
                out.append(["loop", draw(st.integers(1, 3)), lines(d - 1, in_spawn, 3)])
            elif k == "except":
                out.append(["except", nk(), lines(d - 1, in_spawn), lines(d - 1, in_spawn, 2, handler=True)])
            elif k == "exit":
                out.append(["exit", lines(d - 1, in_spawn, 2, handler=handler)])
            elif k == "try":
                # try/catch is for `throw`: a runtime error inside the try block is not the catch block's business
                out.append(["try", nk(), lines(d - 1, in_spawn, 3, handler=handler), lines(0, in_spawn, 2)])
            elif k == "spawn":
                out.append(["spawn", nk(), lines(0, True, 3)])     # spawned scripts: markers and faults only
        return out

    body = lines(depth, False)
    if draw(st.integers(0, 3)) == 0:
        body.append(fault())          # fault as the very last statement
    return body


@st.composite
def _history(draw, depth=3):
    n = draw(st.integers(1, 4))
    runs = []
    for i in range(n):
        if draw(st.integers(0, 2)) == 0:
            # a clean program
            runs.append([["m", j + 1] for j in range(draw(st.integers(1, 4)))])
        else:
            runs.append(draw(_program(depth=depth)))
    return dict(runs=runs)


def strategy(env):
    return _history(depth=4 if env.tier == "thorough" else 3)


# ------------------------------------------------------------------ printing with line numbers

class Printer:
    def __init__(self):
        self.lines = []
        self.fault_line = {}      # fault id -> line index

    def emit(self, text):
        self.lines.append(text)
        return len(self.lines) - 1

    def block(self, b, trace="T"):
        for s in b:
            k = s[0]
            if k == "m":
                self.emit("%s pushBack %d;" % (trace, s[1]))
            elif k == "fault":
                expr = FAULTS[s[1]]
                ln = self.emit(("xf%d = %s;" % (s[3], expr)) if s[2] == "assign" else expr + ";")
                self.fault_line[s[3]] = ln
            elif k == "call":
                self.emit("call {")
                self.block(s[1], trace)
                self.emit("};")
            elif k == "loop":
                self.emit("{")
                self.block(s[2], trace)
                self.emit("} forEach [%s];" % ", ".join(str(i) for i in range(s[1])))
            elif k == "except":
                self.emit("{")
                self.block(s[2], trace)
                self.emit("} except__ {")
                self.emit('H pushBack [%d, isNil "_exception"];' % s[1])
                self.block(s[3], trace)
                self.emit("};")
            elif k == "exit":
                self.emit("if (true) exitWith {")
                self.block(s[1], trace)
                self.emit("};")
            elif k == "try":
                self.emit("try {")
                self.block(s[2], trace)
                self.emit("} catch {")
                self.emit("%s pushBack %d;" % (trace, -s[1]))
                self.block(s[3], trace)
                self.emit("};")
            elif k == "spawn":
                self.emit("[] spawn {")
                self.emit("S%d = [];" % s[1])
                self.block(s[2], "S%d" % s[1])
                self.emit("};")


def to_text(prog):
    p = Printer()
    p.emit("T = []; H = [];")
    p.block(prog)
    return "\n".join(p.lines), p


# ------------------------------------------------------------------ model

class _Err(Exception):
    def __init__(self, fid):
        self.fid = fid


class _Leave(Exception):
    """exitWith: leaves the innermost enclosing block"""


class ErrModel:
    def __init__(self):
        self.T = []
        self.H = []
        self.S = {}
        self.spawned = []
        self.assigned = []     # fault ids whose assignment must NOT have happened
        self.classes = set()
        self.in_try = 0

    def run(self, prog):
        """returns (failed, set of candidate culprit fault ids, where)"""
        culprits = set()
        where = None
        try:
            self.scope(prog, self.T, 0, False)
        except _Err as e:
            culprits.add(e.fid)
            where = "main"
        # spawned scripts are interleaved with their starter by the scheduler: each is modelled alone
        self.spawn_failed = False
        for sid, blk in self.spawned:
            self.S[sid] = []
            try:
                self.scope(blk, self.S[sid], 0, False)
            except _Err as e:
                culprits.add(e.fid)
                self.spawn_failed = True
                where = where or "spawn"
        return bool(culprits), culprits, where

    def scope(self, b, trace, handlers, in_handler):
        """a block that is a scope of its own; returns True if it was left by exitWith"""
        try:
            self.block(b, trace, handlers, in_handler)
            return False
        except _Leave:
            return True

    def block(self, b, trace, handlers, in_handler):
        for i, s in enumerate(b):
            k = s[0]
            if k == "m":
                trace.append(float(s[1]))
            elif k == "fault":
                if s[1] in BEHAVIOUR:
                    self.classes.add("behaviour")
                if s[2] == "assign":
                    self.classes.add("assign")
                    self.assigned.append(s[3])
                if handlers >= 2:
                    self.classes.add("nested_handlers")
                if in_handler:
                    self.classes.add("in_handler")
                if getattr(self, "in_try", 0):
                    self.classes.add("inside_try_catch")
                if handlers == 0:
                    self.classes.add("unhandled")
                else:
                    self.classes.add("handled")
                raise _Err(s[3])
            elif k == "call":
                self.scope(s[1], trace, handlers, in_handler)
            elif k == "loop":
                for _ in range(s[1]):
                    if self.scope(s[2], trace, handlers, in_handler):
                        break                       # exitWith in a loop body ends the loop
            elif k == "exit":
                self.classes.add("exitwith")
                self.scope(s[1], trace, handlers, in_handler)
                raise _Leave()
            elif k == "try":
                # nothing throws in these programs: the catch block never runs, runtime errors pass through
                self.in_try += 1
                try:
                    left = self.scope(s[2], trace, handlers, in_handler)
                finally:
                    self.in_try -= 1
            elif k == "except":
                try:
                    self.scope(s[2], trace, handlers + 1, in_handler)
                except _Err:
                    self.H.append([float(s[1]), False])
                    # a fault inside the handler code is not handled by this construct
                    self.scope(s[3], trace, handlers, True)
            elif k == "spawn":
                self.classes.add("spawn")
                self.spawned.append((s[1], s[2]))


def _is_last_fault(prog):
    return bool(prog) and prog[-1][0] == "fault"


def _vm(env):
    r = env.runner()
    if env.cache.get("gen") != r.generation:
        env.cache["gen"] = r.generation
    return r


def _val(j):
    from engine.sqfprog import vm_value
    return vm_value(j)


def check(case, env):
    r = _vm(env)
    r.new(vm=0, ops="full")          # a history needs its own VM
    labs = set()
    v = None
    any_fault = False
    for idx, prog in enumerate(case["runs"]):
        text, pr = to_text(prog)
        m = ErrModel()
        failed, culprits, where = m.run(prog)
        labs |= m.classes
        if _is_last_fault(prog):
            labs.add("last_statement")
        if failed or m.H:
            any_fault = True
        names = ["T", "H"] + ["S%d" % sid for sid in m.S] + ["xf%d" % f for f in m.assigned]
        r.cmd(dict(op="clearvars", vm=0))      # only the VM's error/scheduler state is carried through the history
        rep = r.run(text, vm=0, getvars=names, getvars_struct=True, abort_on_fail=True)
        if not rep.get("ok"):
            v = viol("rejected", "generated program rejected: %s\n%s" % (rep.get("logs", [])[:2], text))
            break
        logs = rep.get("logs", [])
        errs = [l for l in logs if l["l"] <= 1]
        fatals = [l for l in logs if l["c"] == 60001]
        vm_failed = rep["result"] == "runtime_error"
        ctx = "run %d of %d\nprogram:\n%s\n" % (idx + 1, len(case["runs"]), text)
        got_T = _val(rep["vars"]["T"]["value"]) if "T" in rep.get("vars", {}) else None
        got_H = _val(rep["vars"]["H"]["value"]) if "H" in rep.get("vars", {}) else None
        # with a failing spawned script the starter may be cut anywhere: prefixes are all that is defined
        cut = m.spawn_failed
        def agrees(got, exp):
            if got is None:
                return False
            return got == exp[:len(got)] if cut else got == exp
        if failed != vm_failed:
            if failed:
                v = viol("silent-error|" + where, ctx + "an unhandled fault (line %s) must fail the run, but result=%s state=%s\nlogs: %s" % (
                    sorted(pr.fault_line[f] for f in culprits), rep["result"], rep["state"], [l["m"][:80] for l in logs[:4]]))
            else:
                v = viol("spurious-failure", ctx + "no unhandled fault in this run, but it was reported as failed: result=%s\nlogs: %s" % (
                    rep["result"], [l["m"][:100] for l in logs[:4]]))
            break
        if not failed and not m.H and errs:
            v = viol("spurious-diagnostic", ctx + "clean run produced error diagnostics: %s" % [l["m"][:100] for l in errs[:3]])
            break
        if not agrees(got_T, m.T):
            v = viol("markers|" + ("+".join(sorted(m.classes)) or "clean"), ctx + "markers executed differ: expected T=%s got T=%s (H expected %s got %s)" % (m.T, got_T, m.H, got_H))
            break
        if not agrees(got_H, m.H):
            v = viol("handler-entries|" + "+".join(sorted(m.classes)), ctx + "handler entries differ: expected H=%s got H=%s" % (m.H, got_H))
            break
        for sid, exp in m.S.items():
            gs = rep.get("vars", {}).get("S%d" % sid)
            gsv = _val(gs["value"]) if gs else None
            ok_s = (gsv == exp) if not failed else (gsv is None or gsv == exp[:len(gsv)])
            if not ok_s:
                v = viol("markers|spawned", ctx + "markers of spawned script S%d differ: expected %s got %s" % (sid, exp, gsv))
                break
        if v:
            break
        if failed:
            if not fatals:
                v = viol("no-stacktrace", ctx + "failed run without a stack trace diagnostic; logs: %s" % [l["m"][:80] for l in logs[:4]])
                break
            ln = fatals[0].get("ln")
            cand = sorted(pr.fault_line[f] for f in culprits)
            if ln not in cand:
                v = viol("stacktrace-line", ctx + "stack trace names line %s, the failing statement is on line %s" % (ln, cand))
                break
            if rep.get("state_after_abort", rep["state"]) != "empty":
                v = viol("not-empty-after-abort", ctx + "state after abort: %s" % rep.get("state_after_abort"))
                break
        if not cut:
            for f in m.assigned:
                if ("xf%d" % f) in rep.get("vars", {}):
                    v = viol("assignment-after-error", ctx + "xf%d was assigned although the right-hand side raised an error" % f)
                    break
        if v:
            break
    nontrivial = bool(labs & {"behaviour", "last_statement", "spawn", "nested_handlers", "in_handler", "assign"}) or (len(case["runs"]) >= 2 and any_fault)
    if nontrivial:
        labs.add("nontrivial")
    if len(case["runs"]) >= 2:
        labs.add("history>=2")
    return Result(nontrivial=nontrivial, labels=sorted(labs), violation=v)
