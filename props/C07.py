"""C07 - equality is an equivalence consistent with hashing; HashMap is a finite map."""
import json, struct
from hypothesis import strategies as st
from engine.driver import Result, viol
from engine.sqfprog import vm_value

ID = "C07"
LEVEL = "exploration"
HANG_IS_VIOLATION = True     # every generated case terminates under the model: no reply (twice, then 3x confirmation) is a violation
ENGINE = "E-hyp"
TECHNIQUE = "property-based testing: algebraic laws over variant pairs/triples (isEqualTo, ==, std::hash<value>) and model-based histories on hashmaps against a Python dictionary keyed by isEqualTo-classes"
RULE = ("laws: pairs/triples built as variants of one base value (copy, +-0, case flip, one element changed, nil inserted, code spelled differently, "
        "hashmaps with other insertion order); history: <=14 operations (set, get, deleteAt, in, count, keys, createHashMapFromArray, + copy, "
        "mutation of an array previously used as key or value, mutation after copy) on <=3 hashmaps over a pool of 7 keys, with get/in/count/keys "
        "observed after every step; non-trivial = pair equal-but-not-identical or differing only in one place, or a history with a delete followed "
        "by a lookup, a key mutated after insertion, or a copy followed by a mutation; distinct = SHA-1 of the case")
LEVEL_TEXT = ("Exploration: laws are checked on generated value tuples through the real C++ operator== / hash and the SQF operators; hashmap "
              "histories are compared step by step with a reference dictionary.")
LEVEL_NOTE = ("Trusted: value injection (build_value) and eqhash in runner.cpp, the Python reference equality/dictionary, Hypothesis. "
              "Reflexivity/transitivity are only asserted on values without nil and NaN, as the property states.")
ASSUMPTIONS = ["code values are compared only through the laws (no reference equality for code)", "hashmap keys: numbers, booleans, strings, arrays of those (no nil, no code)"]
SIZES = {"quick": dict(budget_s=45, batch=100), "thorough": dict(budget_s=600, batch=200)}
FLOORS = {"nontrivial": 0.3}


def _bits(x):
    return "%08x" % struct.unpack("I", struct.pack("f", x))[0]


NUMS = [0.0, -0.0, 1.0, -1.0, 0.5, 2.0, 16777216.0, 1e10, 1.5, 3.0]
STRS = ["", "a", "A", "abc", "aBc", "ABC", "x y", 'q"', "ä", "1"]
CODES = ["0", "-0", "1", "1.0", "1 + 2", "1+2", "a", "A", "{1}", "[1,2]", "", " ", '"s"', "'s'"]

_scalar = st.one_of(
    st.sampled_from(NUMS).map(lambda x: {"t": "bits", "v": _bits(x)}),
    st.booleans().map(lambda b: {"t": "bool", "v": b}),
    st.sampled_from(STRS).map(lambda s: {"t": "str", "v": s}),
)
_code = st.sampled_from(CODES).map(lambda c: {"t": "code", "v": c})
_nil = st.just({"t": "nil"})


def _values(allow_nil, allow_code, allow_map=True):
    leaves = [_scalar, _scalar, _scalar]
    if allow_code:
        leaves.append(_code)
    if allow_nil:
        leaves.append(_nil)
    leaf = st.one_of(*leaves)

    def ext(ch):
        opts = [st.lists(ch, max_size=4).map(lambda l: {"t": "arr", "v": l})]
        if allow_map:
            opts.append(st.lists(st.tuples(_scalar, ch), max_size=3).map(lambda l: {"t": "map", "v": [[k, v] for k, v in l]}))
        return st.one_of(*opts)

    return st.recursive(leaf, ext, max_leaves=8)


def _variant(draw, v):
    """a value related to v: equal copy, or differing in one place"""
    kind = draw(st.sampled_from(["copy", "copy", "tweak", "tweak", "other"]))
    if kind == "copy":
        return json.loads(json.dumps(v)), "copy"
    if kind == "other":
        return draw(_values(False, True)), "other"
    return _tweak(draw, v), "tweak"


def _tweak(draw, v):
    t = v["t"]
    if t == "bits":
        x = struct.unpack("f", struct.pack("I", int(v["v"], 16)))[0]
        return {"t": "bits", "v": _bits(-x if x == 0 else draw(st.sampled_from([x, -x, x + 1])))}
    if t == "str":
        s = v["v"]
        return {"t": "str", "v": draw(st.sampled_from([s.swapcase(), s.upper(), s + " ", s]))}
    if t == "bool":
        return {"t": "bool", "v": not v["v"]}
    if t == "code":
        return {"t": "code", "v": draw(st.sampled_from(CODES + [" " + v["v"] + " ", v["v"].replace("+", " + ")]))}
    if t == "arr":
        l = [json.loads(json.dumps(e)) for e in v["v"]]
        if not l:
            return {"t": "arr", "v": [draw(_scalar)]}
        i = draw(st.integers(0, len(l) - 1))
        how = draw(st.sampled_from(["tweak", "drop", "dup", "reverse"]))
        if how == "tweak":
            l[i] = _tweak(draw, l[i])
        elif how == "drop":
            del l[i]
        elif how == "dup":
            l.insert(i, json.loads(json.dumps(l[i])))
        else:
            l.reverse()
        return {"t": "arr", "v": l}
    if t == "map":
        l = [json.loads(json.dumps(e)) for e in v["v"]]
        how = draw(st.sampled_from(["reorder", "reorder", "tweakval", "drop"]))
        if how == "reorder" or not l:
            l.reverse()
        elif how == "tweakval":
            i = draw(st.integers(0, len(l) - 1))
            l[i][1] = _tweak(draw, l[i][1])
        else:
            del l[draw(st.integers(0, len(l) - 1))]
        return {"t": "map", "v": l}
    return v


@st.composite
def _law_case(draw):
    pure = draw(st.booleans())      # without nil: reflexivity/transitivity apply
    a = draw(_values(not pure, True))
    b, kb = _variant(draw, a)
    c, kc = _variant(draw, draw(st.sampled_from([a, b])))
    return dict(mode="laws", a=a, b=b, c=c, kinds=[kb, kc])


KEYPOOL = [
    {"t": "bits", "v": _bits(0.0)}, {"t": "bits", "v": _bits(-0.0)}, {"t": "bits", "v": _bits(1.0)},
    {"t": "str", "v": "a"}, {"t": "str", "v": "A"}, {"t": "bool", "v": True},
]


@st.composite
def _hist_case(draw):
    # keys K0..K5 fixed scalars, K6..K8 arrays (mutable)
    arrkeys = [draw(st.lists(st.sampled_from([0.0, 1.0, 2.0]), max_size=2)) for _ in range(3)]
    nops = draw(st.integers(1, 14))
    ops = []
    val = 100
    for _ in range(nops):
        k = draw(st.sampled_from(["set", "set", "set", "del", "del", "copy", "fromarray", "mutkey", "mutkey", "mutval", "setarrval"]))
        m = draw(st.integers(0, 2))
        key = draw(st.integers(0, 9))      # K9 = [K6, 9]: a key that holds the live array K6 (nested mutation through K6)
        val += 1
        if k == "set":
            ops.append(["set", m, key, val])
        elif k == "del":
            ops.append(["del", m, key])
        elif k == "copy":
            ops.append(["copy", m, draw(st.integers(0, 2))])
        elif k == "fromarray":
            pairs = [[draw(st.integers(0, 9)), val * 10 + i] for i in range(draw(st.integers(0, 3)))]
            ops.append(["fromarray", m, pairs])
        elif k == "mutkey":
            ops.append(["mutkey", draw(st.integers(6, 8)), draw(st.sampled_from([0.0, 1.0, 2.0, 5.0]))])
        elif k == "setarrval":
            ops.append(["setarrval", m, key, draw(st.integers(6, 8))])
        elif k == "mutval":
            ops.append(["mutkey", draw(st.integers(6, 8)), 7.0])
    return dict(mode="history", arrkeys=arrkeys, ops=ops)


def strategy(env):
    return st.one_of(_law_case(), _hist_case())


# ------------------------------------------------------------------ reference equality (no code)

def _has(v, tag):
    if v["t"] == tag:
        return True
    if v["t"] == "arr":
        return any(_has(e, tag) for e in v["v"])
    if v["t"] == "map":
        return any(_has(k, tag) or _has(x, tag) for k, x in v["v"])
    return False


def _f(v):
    return struct.unpack("f", struct.pack("I", int(v["v"], 16)))[0]


def ref_eq(a, b):
    """reference isEqualTo on nil-free, code-free values"""
    if a["t"] != b["t"]:
        return False
    t = a["t"]
    if t == "bits":
        return _f(a) == _f(b)
    if t in ("bool", "str"):
        return a["v"] == b["v"]
    if t == "arr":
        return len(a["v"]) == len(b["v"]) and all(ref_eq(x, y) for x, y in zip(a["v"], b["v"]))
    if t == "map":
        da, db = _mapdict(a), _mapdict(b)
        if da is None or db is None:
            return None
        return len(da) == len(db) and all(any(ref_eq(ka, kb) and ref_eq(va, vb) for kb, vb in db) for ka, va in da)
    return None


def _mapdict(m):
    out = []
    for k, v in m["v"]:
        out = [(k2, v2) for k2, v2 in out if not ref_eq(k2, k)]
        out.append((k, v))
    return out


def _vm(env):
    r = env.runner()
    if env.cache.get("gen") != r.generation:
        r.new(vm=0, ops="full")
        env.cache["gen"] = r.generation
    return r


def _check_laws(case, env):
    r = _vm(env)
    a, b, c = case["a"], case["b"], case["c"]
    labs = ["mode_laws"] + ["variant_" + k for k in case["kinds"]]
    v = None
    res = {}
    for x, y, nm in ((a, b, "ab"), (b, c, "bc"), (a, c, "ac"), (a, a, "aa"), (b, b, "bb")):
        res[nm] = r.cmd(dict(op="eqhash", vm=0, a=x, b=y))
    # in-VM operators
    r.cmd(dict(op="clearvars", vm=0))
    for nm, x in (("va", a), ("vb", b), ("vc", c)):
        r.cmd(dict(op="setvar", vm=0, name=nm, value=x))
    script = "r_ab = va isEqualTo vb; r_ba = vb isEqualTo va; r_bc = vb isEqualTo vc; r_ac = va isEqualTo vc; r_aa = va isEqualTo va; r_nab = va isNotEqualTo vb;"
    same_simple = a["t"] == b["t"] and a["t"] in ("bits", "str", "bool")
    has_ne = a["t"] in ("bits", "str")       # != is not registered for booleans
    if same_simple:
        script += " r_eq = va == vb;" + (" r_ne = va != vb;" if has_ne else "")
    names = ["r_ab", "r_ba", "r_bc", "r_ac", "r_aa", "r_nab", "r_eq", "r_ne"]
    nilfree_ab = not (_has(a, "nil") or _has(b, "nil"))
    if not nilfree_ab and a["t"] == "nil" or b["t"] == "nil" or c["t"] == "nil":
        # nil operands make the operators themselves raise; laws over such pairs are checked at the C++ level only
        rep = None
    else:
        rep = r.run(script, vm=0, getvars=names)
    pure = not any(_has(x, "nil") for x in (a, b, c))
    msgs = []
    if res["ab"]["eq"] != res["ab"]["eq_rev"] or res["bc"]["eq"] != res["bc"]["eq_rev"] or res["ac"]["eq"] != res["ac"]["eq_rev"]:
        msgs.append(("symmetry", "a==b is %s but b==a is %s" % (res["ab"]["eq"], res["ab"]["eq_rev"])))
    if pure and (not res["aa"]["eq"] or not res["bb"]["eq"]):
        msgs.append(("reflexivity", "a value without nil/NaN is not equal to an identical copy of itself"))
    if pure and res["ab"]["eq"] and res["bc"]["eq"] and not res["ac"]["eq"]:
        msgs.append(("transitivity", "a==b and b==c but not a==c"))
    for nm in ("ab", "bc", "ac", "aa", "bb"):
        if res[nm]["eq"] and res[nm]["ha"] != res[nm]["hb"]:
            kind = "code" if (_has(a, "code") or _has(b, "code") or _has(c, "code")) else ("hashmap" if (_has(a, "map") or _has(b, "map") or _has(c, "map")) else "plain")
            msgs.append(("hash-consistency|" + kind, "values compare equal (%s) but hash differently: %s vs %s" % (nm, res[nm]["ha"], res[nm]["hb"])))
            break
    if not _has(a, "code") and not _has(b, "code") and nilfree_ab:
        re_ = ref_eq(a, b)
        if re_ is not None and re_ != res["ab"]["eq"]:
            msgs.append(("reference-equality", "a==b is %s, reference equality says %s" % (res["ab"]["eq"], re_)))
    if rep is not None:
        vs = {k: x["sqf"] for k, x in rep.get("vars", {}).items()}
        errs = [l for l in rep.get("logs", []) if l["l"] <= 1]
        if errs:
            msgs.append(("operator-error", "isEqualTo / == raised: %s" % [l["m"][:100] for l in errs[:2]]))
        else:
            tf = lambda b_: "true" if b_ else "false"
            if vs.get("r_ab") != tf(res["ab"]["eq"]) or vs.get("r_ba") != tf(res["ab"]["eq_rev"]):
                msgs.append(("operator-vs-cpp", "isEqualTo gives %s/%s, C++ == gives %s/%s" % (vs.get("r_ab"), vs.get("r_ba"), res["ab"]["eq"], res["ab"]["eq_rev"])))
            if vs.get("r_nab") == vs.get("r_ab"):
                msgs.append(("isNotEqualTo", "isNotEqualTo is not the negation of isEqualTo"))
            if same_simple:
                exp = res["ab"]["eq"]
                if a["t"] == "str":
                    exp = a["v"].lower() == b["v"].lower() if all(ord(ch) < 128 for ch in a["v"] + b["v"]) else None
                if exp is not None and (vs.get("r_eq") != tf(exp) or (has_ne and vs.get("r_ne") != tf(not exp))):
                    msgs.append(("==-vs-isEqualTo", "a == b is %s (a != b is %s), expected %s from isEqualTo modulo string case" % (vs.get("r_eq"), vs.get("r_ne"), exp)))
    nontrivial = ("copy" in case["kinds"] or "tweak" in case["kinds"]) and a["t"] in ("arr", "map", "code", "str", "bits")
    if msgs:
        sig, m = msgs[0]
        v = viol("law|" + sig, m + "\na=%s\nb=%s\nc=%s" % (json.dumps(a), json.dumps(b), json.dumps(c)))
    if nontrivial:
        labs.append("nontrivial")
    return Result(nontrivial=nontrivial, labels=labs, violation=v)


# ------------------------------------------------------------------ hashmap histories

def _canon(x):
    """canonical form of an isEqualTo-class (python value -> hashable)"""
    if isinstance(x, float):
        return ("n", 0.0 if x == 0 else x)
    if isinstance(x, bool):
        return ("b", x)
    if isinstance(x, str):
        return ("s", x)
    if isinstance(x, list):
        return ("a", tuple(_canon(e) for e in x))
    raise ValueError(x)


def _py(v):
    if v["t"] == "bits":
        return _f(v)
    return v["v"]


def _sqf(x):
    if isinstance(x, bool):
        return "true" if x else "false"
    if isinstance(x, float):
        if x == 0 and str(x).startswith("-"):
            return "(-0)"
        return repr(x) if x != int(x) else str(int(x))
    if isinstance(x, str):
        return '"' + x.replace('"', '""') + '"'
    if isinstance(x, list):
        return "[" + ",".join(_sqf(e) for e in x) + "]"
    raise ValueError(x)


def _check_history(case, env):
    r = _vm(env)
    class _Keys(list):
        """current value of each key variable (python); K9 = [K6, 9] holds the live array K6"""
        def __getitem__(self, i):
            if i == 9:
                return [list.__getitem__(self, 6), 9.0]
            return list.__getitem__(self, i)

        def __len__(self):
            return 10
    keys = _Keys([_py(k) for k in KEYPOOL] + [list(a) for a in case["arrkeys"]])
    lines = ["T = []; M0 = createHashMap; M1 = createHashMap; M2 = createHashMap;"]
    for i in range(9):
        lines.append("K%d = %s;" % (i, _sqf(keys[i])))
    lines.append("K9 = [K6, 9];")
    maps = [dict(), dict(), dict()]      # canon(key) -> [key snapshot, value(py or ('ref', keyidx))]
    expected = []
    labs = {"mode_history"}
    deleted = False
    mutated_after_insert = False
    copied = False
    inserted_arrays = set()
    arrvals = {}
    for op in case["ops"]:
        k = op[0]
        if k == "set":
            _, m, ki, val = op
            lines.append("M%d set [K%d, %d];" % (m, ki, val))
            maps[m][_canon(keys[ki])] = [json.loads(json.dumps(keys[ki])), float(val)]
            if ki >= 6:
                inserted_arrays.add(ki)
        elif k == "setarrval":
            _, m, ki, vi = op
            # value is an array variable: values are shared references (C08), so later mutation shows through
            lines.append("M%d set [K%d, K%d];" % (m, ki, vi))
            maps[m][_canon(keys[ki])] = [json.loads(json.dumps(keys[ki])), ("ref", vi)]
            if ki >= 6:
                inserted_arrays.add(ki)
        elif k == "del":
            _, m, ki = op
            lines.append("M%d deleteAt K%d;" % (m, ki))
            maps[m].pop(_canon(keys[ki]), None)
            deleted = True
            labs.add("delete")
        elif k == "copy":
            _, m, src = op
            if m != src:
                lines.append("M%d = +M%d;" % (m, src))
                # a copy shares nothing with its source: an array held as value is copied too (its contents at this moment)
                maps[m] = {ck: [json.loads(json.dumps(e[0])), (("snap", json.loads(json.dumps(keys[e[1][1]]))) if isinstance(e[1], tuple) and e[1][0] == "ref" else e[1])]
                           for ck, e in maps[src].items()}
                if any(isinstance(e[1], tuple) and e[1][0] == "ref" for e in maps[src].values()):
                    labs.add("copy_of_map_with_array_value")
                copied = True
                labs.add("copy")
        elif k == "fromarray":
            _, m, pairs = op
            lines.append("M%d = createHashMapFromArray [%s];" % (m, ", ".join("[K%d, %d]" % (ki, val) for ki, val in pairs)))
            maps[m] = {}
            for ki, val in pairs:
                maps[m][_canon(keys[ki])] = [json.loads(json.dumps(keys[ki])), float(val)]
                if ki >= 6:
                    inserted_arrays.add(ki)
        elif k == "mutkey":
            _, ki, x = op
            lines.append("K%d pushBack %s;" % (ki, _sqf(x)))
            keys[ki] = keys[ki] + [x]
            if ki == 6 and 9 in inserted_arrays:
                mutated_after_insert = True
                labs.add("key_or_value_mutated_after_insert")
                labs.add("nested_key_mutated_after_insert")
            if ki in inserted_arrays:
                mutated_after_insert = True
                labs.add("key_or_value_mutated_after_insert")
            if copied:
                labs.add("mutation_after_copy")
        # observation after every step
        obs = []
        exp = []
        for m in range(3):
            obs.append("count M%d" % m)
            exp.append(float(len(maps[m])))
            for ki in range(len(keys)):
                obs.append("K%d in M%d" % (ki, m))
                ck = _canon(keys[ki])
                present = ck in maps[m]
                exp.append(present)
                obs.append("M%d get K%d" % (m, ki))
                if present:
                    val = maps[m][ck][1]
                    exp.append((keys[val[1]] if val[0] == "ref" else val[1]) if isinstance(val, tuple) else val)
                else:
                    exp.append(None)
            obs.append("keys M%d" % m)
            exp.append(("KEYS", sorted(repr(_canon(e[0])) for e in maps[m].values())))
        lines.append("T pushBack (+[" + ", ".join(obs) + "]);")      # deep copy: observations must not alias live arrays
        expected.append(exp)
    if deleted:
        labs.add("delete_then_lookup")
    text = "\n".join(lines)
    r.cmd(dict(op="clearvars", vm=0))
    rep = r.run(text, vm=0, getvars=["T"], getvars_struct=True)
    errs = [l for l in rep.get("logs", []) if l["l"] <= 1]
    v = None
    if not rep.get("ok") or rep.get("result") not in ("ok", "empty") or errs:
        v = viol("history|error", "history raised a diagnostic: %s\n%s" % ([l["m"][:120] for l in errs[:2]], text))
    else:
        got = vm_value(rep["vars"]["T"]["value"])
        for step, (g, e) in enumerate(zip(got, expected)):
            bad = None
            for j, (gv, ev) in enumerate(zip(g, e)):
                if isinstance(ev, tuple) and ev[0] == "KEYS":
                    try:
                        gk = sorted(repr(_canon(x)) for x in gv)
                    except Exception:
                        gk = gv
                    if gk != ev[1]:
                        bad = (j, gv, ev[1])
                        break
                elif gv != ev:
                    bad = (j, gv, ev)
                    break
            if bad:
                kind = "key-mutated-after-insert" if mutated_after_insert else ("copy" if copied else "plain")
                v = viol("history|" + kind, "after step %d (%s) observation #%d is %r, reference dictionary says %r\n%s" % (
                    step, case["ops"][step], bad[0], bad[1], bad[2], text))
                break
    nontrivial = bool(labs & {"delete_then_lookup", "key_or_value_mutated_after_insert", "mutation_after_copy"})
    if nontrivial:
        labs.add("nontrivial")
    return Result(nontrivial=nontrivial, labels=sorted(labs), violation=v)


def check(case, env):
    if case["mode"] == "laws":
        return _check_laws(case, env)
    return _check_history(case, env)
