"""C01 - expressions group by precedence, left-assoc, unary tightest, operands in order.

Oracle: the instruction listing produced by the real parser (`asm`, nested code
expanded) must equal the post-order of the generator's tree; plus an exhaustive
registry invariant (one precedence per binary name) and a value oracle on an
arithmetic sub-language (VM value == Python value of the tree == VM value of
the fully parenthesised print).
"""
import json
from hypothesis import strategies as st
from engine.driver import Result, viol
from engine import sqfgen
from engine.sqfgen import Registry

ID = "C01"
LEVEL = "exploration"
TECHNIQUE = "property-based testing: grammar-generated expression trees vs. reference post-order (structural + value oracle), exhaustive registry invariant"
RULE = ("cases = expression trees (Hypothesis st.recursive) over literals, variables, arrays, code, parentheses and operator names "
        "drawn from the live registry (mode stock) or from synthetic operators registered on every level 1..10 and every class "
        "B/BU/BN/BUN/U/N/UN (mode synth), printed with minimal or redundant parentheses, random whitespace and letter case; "
        "non-trivial = the tree has >=1 position where another grouping changes the post-order: a binary operator directly under "
        "a binary operator (different or same level) or a unary operator adjacent to a binary one; distinct = SHA-1 of the case")
LEVEL_TEXT = ("Exploration by generated expression trees compared with an exact reference post-order, plus an exhaustive pass over every "
              "registered operator name in each of its roles and an exhaustive registry invariant (one precedence per binary name). "
              "Sampling cannot exhaust an unbounded grammar, so the claim is 'held on everything explored'; the evidence lists level pairs covered.")
LEVEL_NOTE = ("Trusted: the Python reference post-order and printer (engine/sqfgen.py), instruction::to_string as a faithful listing, "
              "the runner, Hypothesis. Not asserted: diagnostics for ill-formed text, ambiguous multi-class sequences.")
ASSUMPTIONS = [
    "instruction listing (instruction::to_string) faithfully names the emitted instructions",
    "multi-class names are only placed where the documented reading is forced (see DESIGN C01)",
    "error messages for ill-formed text are not asserted",
]
SIZES = {"quick": dict(budget_s=40, batch=150), "thorough": dict(budget_s=600, batch=300)}
FLOORS = {"nontrivial": 0.5}

SYNTH = []
for lvl in range(1, 11):
    SYNTH.append(dict(kind="b", name="sb%d" % lvl, prec=lvl))
    SYNTH.append(dict(kind="b", name="sb%dx" % lvl, prec=lvl))
    for cls in ("bu", "bn", "bun"):
        nm = "s%s%d" % (cls, lvl)
        SYNTH.append(dict(kind="b", name=nm, prec=lvl))
        if "u" in cls:
            SYNTH.append(dict(kind="u", name=nm))
        if "n" in cls:
            SYNTH.append(dict(kind="n", name=nm))
for nm in ("su1", "su2"):
    SYNTH.append(dict(kind="u", name=nm))
for nm in ("sn1", "sn2"):
    SYNTH.append(dict(kind="n", name=nm))
SYNTH.append(dict(kind="u", name="sun1"))
SYNTH.append(dict(kind="n", name="sun1"))
# symbolic stock names also exist on their stock levels in synth mode? no: synth VM has no stock operators


def _setup(env):
    r = env.runner()
    if env.cache.get("gen") == r.generation:
        return
    env.cache["gen"] = r.generation
    r.new(vm=0, ops="full")
    env.cache["reg"] = Registry(r.cmd(dict(op="registry", vm=0)))
    r.new(vm=1, ops="none", synthetic=SYNTH)
    env.cache["sreg"] = Registry(r.cmd(dict(op="registry", vm=1)))


def _pools(reg):
    binary = [n for n in reg.binary]
    unary = [n for n in reg.unary] + ["private"]
    nular = [n for n in reg.nular if n not in sqfgen.KEYWORDS]
    return binary, unary, nular


def strategy(env):
    _setup(env)
    reg, sreg = env.cache["reg"], env.cache["sreg"]
    big = env.tier == "thorough"
    leaves = 20 if big else 10
    b, u, n = _pools(reg)
    # weight the 8 stock levels evenly: choose level first, then name
    by_level = reg.by_level()
    lvl_names = st.sampled_from(sorted(by_level)).flatmap(lambda l: st.sampled_from(by_level[l]))
    stock_bin = st.one_of(lvl_names, st.sampled_from(["+", "-", "*", "/", "%", "^", "==", "!=", ">", "<", ">=", "<=", ">>", "&&", "||", "#", ":", "select", "else", "then", "do", "max", "min", "atan2", "isEqualTo", "and", "or", "in", "count", "apply", "call", "getVariable"]).filter(lambda x: x.lower() in reg.prec))
    stock = _trees(reg, stock_bin, st.sampled_from(u), st.sampled_from(n), leaves)
    sb, su, sn = _pools(sreg)
    su = [x for x in su if x != "private"]
    synth = _trees(sreg, st.sampled_from(sb), st.sampled_from(su), st.sampled_from(sn), leaves)
    choices = st.lists(st.integers(0, 255), min_size=0, max_size=60)
    stock_case = st.tuples(stock, choices, st.sampled_from(VAR_LAST)).map(lambda t: dict(mode="stock", tree=t[0], choices=t[1], last=t[2]))
    synth_case = st.tuples(synth, choices).map(lambda t: dict(mode="synth", tree=t[0], choices=t[1], last=None))
    return st.one_of(stock_case, stock_case, synth_case)


VAR_LAST = [None, None, None, "t", "tr", "f", "fals", "pri", "privat", "T", "FAL", "true_x", "false1", "private_", "trueX"]


def _trees(reg, bin_s, un_s, nul_s, leaves):
    num = st.one_of(
        st.integers(0, 99).map(lambda i: ["num", str(i)]),
        st.sampled_from(["0.5", "1.25", "2.5", "10.75", "1e3", "1E2", ".5", "007", "16777216", "1e-2", "2.5e1", "0"]).map(lambda t: ["num", t]),
        st.sampled_from(["$FF", "0x10", "0xaB", "$0"]).map(lambda t: ["hex", t]),
    )
    leaf = st.one_of(
        num, num,
        st.sampled_from(["a", "b", "_x", "_y", "foo", "Bar", "x1", "_1", "true_x", "false1", "private_"]).map(lambda n: ["var", n]),
        st.booleans().map(lambda b: ["bool", b]),
        st.sampled_from(["", "a", "x y", 'q"q', "it's", "{{", "1+2", "//", "/*"]).map(lambda s: ["str", s]),
        nul_s.map(lambda n: ["nular", n]),
    )

    def extend(children):
        stmt = st.one_of(
            children.map(lambda c: ["expr", c]),
            st.tuples(st.sampled_from(["a", "_x", "Foo"]), children).map(lambda t: ["assign", t[0], t[1]]),
            st.tuples(st.sampled_from(["_x", "_Y"]), children).map(lambda t: ["passign", t[0], t[1]]),
        )
        return st.one_of(
            st.tuples(bin_s, children, children).map(lambda t: ["binary", t[0], t[1], t[2]]),
            st.tuples(bin_s, children, children).map(lambda t: ["binary", t[0], t[1], t[2]]),
            st.tuples(bin_s, children, children).map(lambda t: ["binary", t[0], t[1], t[2]]),
            st.tuples(un_s, children).map(lambda t: ["unary", t[0], t[1]]),
            st.lists(children, min_size=0, max_size=3).map(lambda l: ["array", l]),
            children.map(lambda c: ["paren", c]),
            st.lists(stmt, min_size=0, max_size=3).map(lambda l: ["code", l]),
        )

    inner = st.recursive(leaf, extend, max_leaves=leaves)
    b2 = st.tuples(bin_s, inner, inner).map(lambda t: ["binary", t[0], t[1], t[2]])
    # bias towards trees that have at least one grouping decision
    return st.one_of(
        st.tuples(bin_s, b2, inner).map(lambda t: ["binary", t[0], t[1], t[2]]),
        st.tuples(bin_s, inner, b2).map(lambda t: ["binary", t[0], t[1], t[2]]),
        st.tuples(bin_s, b2, b2).map(lambda t: ["binary", t[0], t[1], t[2]]),
        st.tuples(un_s, b2).map(lambda t: ["unary", t[0], t[1]]),
        st.tuples(bin_s, st.tuples(un_s, inner).map(lambda t: ["unary", t[0], t[1]]), inner).map(lambda t: ["binary", t[0], t[1], t[2]]),
        inner,
    )


def _first_token_class(node, reg):
    """class of the first token an expression prints (after its own parens decision is made by the caller)"""
    k = node[0]
    if k == "binary":
        return _first_token_class(node[2], reg)   # caller handles parens: approximation is conservative below
    if k in ("unary", "nular"):
        return reg.cls.get(node[1].lower(), "")
    return ""


def _force(node, reg):
    """make multi-class placements unambiguous by construction (parentheses)"""
    k = node[0]
    if k == "nular":
        c = reg.cls.get(node[1].lower(), "n")
        if "u" in c:                      # un / bun used as operand: force nular reading
            return ["paren", node]
        return node
    if k == "unary":
        ch = _force(node[2], reg)
        c = reg.cls.get(node[1].lower(), "u")
        if "n" in c:                      # un / bun used as unary: operand must start unambiguously
            ch = ["paren", ch] if ch[0] != "paren" else ch
        return ["unary", node[1], ch]
    if k == "binary":
        return ["binary", node[1], _force(node[2], reg), _force(node[3], reg)]
    if k == "paren":
        return ["paren", _force(node[1], reg)]
    if k == "array":
        return ["array", [_force(e, reg) for e in node[1]]]
    if k == "code":
        return ["code", [s[:-1] + [_force(s[-1], reg)] for s in node[1]]]
    return node


def _has_un_nular(node, reg):
    k = node[0]
    if k == "nular":
        return reg.cls.get(node[1].lower(), "") == "un"
    if k == "unary":
        return _has_un_nular(node[2], reg)
    if k == "binary":
        return _has_un_nular(node[2], reg) or _has_un_nular(node[3], reg)
    if k == "paren":
        return _has_un_nular(node[1], reg)
    if k == "array":
        return any(_has_un_nular(e, reg) for e in node[1])
    if k == "code":
        return any(_has_un_nular(s[-1], reg) for s in node[1])
    return False


def _vars(node, acc):
    k = node[0]
    if k == "var":
        acc.append(node[1])
    elif k == "unary":
        _vars(node[2], acc)
    elif k == "binary":
        _vars(node[2], acc); _vars(node[3], acc)
    elif k == "paren":
        _vars(node[1], acc)
    elif k == "array":
        for e in node[1]:
            _vars(e, acc)
    elif k == "code":
        for s in node[1]:
            _vars(s[-1], acc)
    return acc


def _check_value(case, env):
    import struct
    r = env.runner()
    rep = r.cmd(dict(op="run", vm=0, sqf="vo_a = " + case["text"] + "; vo_b = " + case["full"] + ";", getvars=["vo_a", "vo_b"], getvars_struct=True))
    exp = case["expected"]
    expbits = "%08x" % struct.unpack("I", struct.pack("f", exp))[0]
    try:
        a = rep["vars"]["vo_a"]["value"]; b = rep["vars"]["vo_b"]["value"]
        ok = a["t"] == "SCALAR" and b["t"] == "SCALAR" and a["bits"] == b["bits"] and (a["bits"] == expbits or (exp == 0 and float(a["v"]) == 0))
    except KeyError:
        ok = False; a = b = None
    v = None if ok else viol("value-mismatch", "value of %r = %s, fully parenthesised %r = %s, reference %r" % (case["text"], a, case["full"], b, exp))
    return Result(nontrivial=True, labels=["mode_value"], violation=v)


def check(case, env):
    _setup(env)
    if case.get("mode") == "value":
        return _check_value(case, env)
    if "registry_name" in case:
        reg = env.cache["reg"]
        ps = sorted(reg.bin_prec_all.get(case["registry_name"], []))
        v = None if len(ps) <= 1 else viol("registry|overloads-differ-in-precedence|" + case["registry_name"], "precedences %s" % ps)
        return Result(nontrivial=True, labels=["mode_registry"], violation=v)
    reg = env.cache["reg"] if case["mode"] == "stock" else env.cache["sreg"]
    vm = 0 if case["mode"] == "stock" else 1
    tree = _force(case["tree"], reg)
    stmts = [["expr", tree]]
    if case.get("last"):
        stmts.append(["expr", ["var", case["last"]]])
    text = sqfgen.print_statements(stmts, reg, case["choices"])
    expected = sqfgen.statements_postorder(stmts, reg)
    rep = env.runner().cmd(dict(op="asm", vm=vm, sqf=text, deep=True))
    facts = sqfgen.grouping_positions(tree, reg)
    nontrivial = len(facts) > 0
    labels = ["mode_" + case["mode"]]
    if nontrivial:
        labels.append("nontrivial")
    for f in facts[:8]:
        if f[0] == "pair":
            labels.append("pair_%d_%d" % (min(f[1], f[2]), max(f[1], f[2])))
            if f[1] == f[2]:
                labels.append("assoc_same_level")
        else:
            labels.append("unary_adjacent_binary")
    if case.get("last"):
        labels.append("var_last")
    v = None
    if not rep.get("ok"):
        if _has_un_nular(tree, reg):
            sig = "parse-fail|nular-use-of-unary+nular-name"
        elif '["binary", "."' in json.dumps(tree):
            sig = "parse-fail|binary-operator-dot-not-lexed"
        else:
            sig = "parse-fail|other"
        msgs = "; ".join(l["m"] for l in rep.get("logs", [])[:3])
        v = viol(sig, "well-formed expression rejected by the parser\ntext: %r\nlogs: %s" % (text, msgs))
    elif rep["asm"] != expected:
        sig = "mismatch|other"
        names = _vars(["array", [s[-1] for s in stmts]], [])
        got_flat = json.dumps(rep["asm"])
        for nm in names:
            low = nm.lower()
            for kw in ("true", "false", "private"):
                if low != kw and (kw.startswith(low) or (low.startswith(kw) and not low[len(kw):len(kw) + 1].isalpha())):
                    if ("GETVARIABLE " + nm) not in got_flat:
                        sig = "mismatch|identifier-lexed-as-keyword"
        v = viol(sig, "instruction listing differs from the post-order of the documented reading\ntext: %r\nexpected: %s\ngot:      %s" % (
            text, json.dumps(expected), json.dumps(rep["asm"])))
    return Result(nontrivial=nontrivial, labels=labels, violation=v)


# ---------------------------------------------------------------- extra: exhaustive registry invariant + value oracle

def extra(env, tier, seed, sizes):
    _setup(env)
    reg = env.cache["reg"]
    out = dict(evaluations=0, nontrivial=[], labels={}, violations=[], samples=[], info={})
    # (3) every binary name has exactly one precedence over all its overloads (exhaustive)
    bad = {n: sorted(p) for n, p in reg.bin_prec_all.items() if len(p) != 1}
    out["evaluations"] += len(reg.bin_prec_all)
    out["labels"]["registry_names_checked"] = len(reg.bin_prec_all)
    for n, p in sorted(bad.items()):
        out["violations"].append(dict(case=dict(registry_name=n), sig="registry|overloads-differ-in-precedence|" + n,
                                      msg="binary operator %r is registered with precedences %s" % (n, p)))
    levels = sorted({p for ps in reg.bin_prec_all.values() for p in ps})
    out["info"]["registry"] = dict(binary_names=len(reg.binary), unary_names=len(reg.unary), nular_names=len(reg.nular),
                                   levels_in_use=levels, exhaustive_registry_invariant=True)
    # every registered name, once in each role it has, in a fixed frame that pins its grouping
    r = env.runner()
    n_role = 0
    for name in reg.binary:
        p = reg.prec[name]
        # a LOW name HIGH  with LOW one level looser and HIGH one level tighter than `name` where such levels exist
        lo = "||" if p > 1 else None
        hi = "#" if p < 9 else None
        tree = ["binary", name, ["var", "a"], ["var", "b"]]
        if hi:
            tree = ["binary", name, ["binary", hi, ["var", "a"], ["var", "c"]], ["binary", hi, ["var", "b"], ["var", "d"]]]
        if lo:
            tree = ["binary", lo, tree, ["binary", name, ["var", "e"], ["var", "h"]]]
        tree = ["binary", name, tree, ["var", "g"]] if not lo else tree
        text = sqfgen.print_expr(tree, reg, minimal_ws=True)
        expected = sqfgen.postorder(tree, reg, [])
        rep = r.cmd(dict(op="asm", vm=0, sqf=text, deep=True))
        n_role += 1
        if not rep.get("ok") or rep["asm"] != expected:
            out["violations"].append(dict(case=dict(mode="stock", tree=tree, choices=[], last=None), sig=("parse-fail|binary-operator-dot-not-lexed" if name == "." else "mismatch|sweep-binary|" + name),
                                          msg="binary name %r in pinned frame: text %r expected %s got %s" % (name, text, expected, rep.get("asm"))))
    for name in reg.unary:
        tree = ["binary", "+", ["unary", name, ["var", "a"]], ["unary", name, ["binary", "#", ["var", "b"], ["var", "c"]]]]
        tree = _force(tree, reg)
        text = sqfgen.print_expr(tree, reg, minimal_ws=True)
        expected = sqfgen.postorder(tree, reg, [])
        rep = r.cmd(dict(op="asm", vm=0, sqf=text, deep=True))
        n_role += 1
        if not rep.get("ok") or rep["asm"] != expected:
            out["violations"].append(dict(case=dict(mode="stock", tree=tree, choices=[], last=None), sig="mismatch|sweep-unary|" + name,
                                          msg="unary name %r: text %r expected %s got %s" % (name, text, expected, rep.get("asm"))))
    for name in reg.nular:
        if name in sqfgen.KEYWORDS:
            continue
        tree = _force(["binary", "+", ["nular", name], ["array", [["nular", name]]]], reg)
        text = sqfgen.print_expr(tree, reg, minimal_ws=True)
        expected = sqfgen.postorder(tree, reg, [])
        rep = r.cmd(dict(op="asm", vm=0, sqf=text, deep=True))
        n_role += 1
        if not rep.get("ok") or rep["asm"] != expected:
            sig = "parse-fail|nular-use-of-unary+nular-name" if reg.cls.get(name) == "un" else "mismatch|sweep-nular|" + name
            out["violations"].append(dict(case=dict(mode="stock", tree=tree, choices=[], last=None), sig=sig,
                                          msg="nular name %r: text %r expected %s got %s" % (name, text, expected, rep.get("asm"))))
    out["evaluations"] += n_role
    out["labels"]["sweep_name_roles"] = n_role
    out["info"]["every_registered_name_in_each_role"] = n_role
    # (2) value oracle
    vo = value_oracle(env, seed, 4000 if tier == "quick" else 60000)
    out["evaluations"] += vo["evaluations"]
    out["labels"].update(vo["labels"])
    out["violations"].extend(vo["violations"])
    out["nontrivial"] = vo["nontrivial"]
    out["samples"] = vo["samples"]
    return out


def _gen_arith(rng, depth):
    """random arithmetic/boolean tree with exact float32 semantics; returns (tree, type)"""
    if depth <= 0 or rng.random() < 0.25:
        return ["num", str(rng.choice([0, 1, 2, 3, 4, 5, 7, 8, 16, 0.5, 0.25, 12]))], "n"
    c = rng.random()
    if c < 0.55:
        op = rng.choice(["+", "-", "*", "/", "%", "max", "min", "^"])
        l, _ = _gen_arith(rng, depth - 1)
        if op == "/":
            r = ["num", str(rng.choice([1, 2, 4, 8, 0.5]))]
        elif op == "%":
            r = ["num", str(rng.choice([1, 2, 3, 4, 5, 7, 8]))]
        elif op == "^":
            r = ["num", str(rng.choice([0, 1, 2]))]
        else:
            r, _ = _gen_arith(rng, depth - 1)
        return ["binary", op, l, r], "n"
    if c < 0.7:
        x, _ = _gen_arith(rng, depth - 1)
        return ["unary", rng.choice(["-", "+", "abs", "floor", "ceil"]), x], "n"
    if c < 0.8:
        x, _ = _gen_arith(rng, depth - 1)
        return ["paren", x], "n"
    # select on an array literal: [a,b,c] select k  /  [a,b,c] # k
    n = rng.randint(1, 3)
    elems = [_gen_arith(rng, depth - 2)[0] for _ in range(n)]
    return ["binary", rng.choice(["select", "#"]), ["array", elems], ["num", str(rng.randrange(n))]], "n"


def _eval(node):
    from engine.sqfgen import f32
    import math
    k = node[0]
    if k == "num":
        return f32(float(node[1]))
    if k == "paren":
        return _eval(node[1])
    if k == "unary":
        x = _eval(node[2])
        if x is None:
            return None
        op = node[1]
        if op == "-":
            return f32(-x)
        if op == "+":
            return x
        if op == "abs":
            return f32(abs(x))
        if op == "floor":
            return f32(math.floor(x))
        if op == "ceil":
            return f32(math.ceil(x))
    if k == "binary":
        op = node[1]
        if op in ("select", "#"):
            idx = int(float(node[3][1]))
            return _eval(node[2][1][idx])
        l, r = _eval(node[2]), _eval(node[3])
        if l is None or r is None:
            return None
        if abs(l) > 1e6 or abs(r) > 1e6:
            return None
        if op == "+":
            return f32(l + r)
        if op == "-":
            return f32(l - r)
        if op == "*":
            return f32(l * r)
        if op == "/":
            return f32(l / r)
        if op == "%":
            return f32(math.fmod(l, r))
        if op == "max":
            return max(l, r)
        if op == "min":
            return min(l, r)
        if op == "^":
            return f32(l ** r) if not (l == 0 and r == 0) else 1.0
    raise ValueError(node)


def value_oracle(env, seed, n):
    import random, struct, hashlib
    reg = env.cache["reg"]
    r = env.runner()
    rng = random.Random(seed * 7 + 1)
    out = dict(evaluations=0, labels={"value_oracle_cases": 0, "value_oracle_nontrivial": 0}, violations=[], nontrivial=[], samples=[])
    batch = []
    for i in range(n):
        tree, _ = _gen_arith(rng, rng.randint(2, 5))
        exp = _eval(tree)
        if exp is None or exp != exp or abs(exp) > 1e30:
            continue
        batch.append((tree, exp))
    for tree, exp in batch:
        choices = [rng.randrange(256) for _ in range(30)]
        text = sqfgen.print_expr(tree, reg, choices)
        full = sqfgen.print_expr(sqfgen.full_parens(tree, reg), reg, minimal_ws=True)
        rep = r.cmd(dict(op="run", vm=0, sqf="vo_a = " + text + "; vo_b = " + full + ";", getvars=["vo_a", "vo_b"], getvars_struct=True))
        out["evaluations"] += 1
        out["labels"]["value_oracle_cases"] += 1
        facts = sqfgen.grouping_positions(tree, reg)
        if facts:
            out["labels"]["value_oracle_nontrivial"] += 1
            out["nontrivial"].append(hashlib.sha1(text.encode()).hexdigest())
            if len(out["samples"]) < 2:
                out["samples"].append(dict(mode="value", text=text, full=full, expected=exp))
        try:
            a = rep["vars"]["vo_a"]["value"]
            b = rep["vars"]["vo_b"]["value"]
            ok = a["t"] == "SCALAR" and b["t"] == "SCALAR"
        except KeyError:
            ok = False
            a = b = None
        expbits = "%08x" % struct.unpack("I", struct.pack("f", exp))[0]
        if not ok or a["bits"] != b["bits"] or (a["bits"] != expbits and not (exp == 0 and float(a["v"]) == 0)):
            out["violations"].append(dict(case=dict(mode="value", text=text, full=full, expected=exp), sig="value-mismatch",
                                          msg="value of %r = %s, fully parenthesised %r = %s, reference %r (%s)" % (text, a, full, b, exp, expbits)))
            if len(out["violations"]) > 3:
                break
    return out
