"""C11 - execution bounds hold: max runtime per run, loop cap in unscheduled code."""
import json
from hypothesis import strategies as st
from engine.driver import Result, viol
from engine.sqfprog import vm_value
from engine.runner import RunnerCrash

ID = "C11"
LEVEL = "exploration"
ENGINE = "E-hyp"
TECHNIQUE = "property-based testing on a virtual clock (hook H1): histories of non-terminating / long-running and short programs on one VM with generated limits and clock jumps; oracle = deadline arithmetic on virtual time, abort diagnostic, empty VM, iteration counters vs. cap"
RULE = ("cases = configuration (max runtime 0 or 5..3000 ms, loop cap 1..300 or 10000) + history of 1-5 runs; each run is a program from "
        "{while-true with empty / non-empty body (unscheduled or scheduled), for-step-0, recursion through call / forEach, mutually spawning scripts, "
        "waitUntil {false}, long sleep, short terminating program, an expression (terminating / endless) evaluated by the preprocessor through __EVAL}, optionally preceded by a virtual clock jump beyond the limit; the clock advances 0.1 ms per read; "
        "non-trivial = the run would not terminate by itself, or is preceded on the same VM by elapsed virtual time greater than the limit; distinct = SHA-1 of the case")
LEVEL_TEXT = ("Exploration on virtual time: every run must return within limit + slack of virtual time measured from its own start, carry the "
              "MaximumRuntimeReached diagnostic when it was cut, leave the VM empty and reusable; while loops in unscheduled code stop at the cap.")
LEVEL_NOTE = ("Trusted: hook H1 (virtual clock replaces every clock read), the runner's time accounting, Hypothesis. Assumes every single operator call terminates "
              "(as the property does). Slack = 2.5 ms of virtual time (25 clock reads).")
ASSUMPTIONS = ["virtual clock: 0.1 ms per read", "limits below 5 ms are not generated (a run needs a few clock reads to start)"]
SIZES = {"quick": dict(budget_s=40, batch=60), "thorough": dict(budget_s=600, batch=150)}
FLOORS = {"nontrivial": 0.6}

PROGRAMS = {
    # name: (text, scheduled main context, terminates by itself, stopped by loop cap in unscheduled code)
    "short": ('T = []; T pushBack 1; T pushBack 2; T pushBack 3;', False, True, False),
    "short_sched": ('T = []; T pushBack 1; sleep 0.001; T pushBack 2;', True, True, False),
    "while_empty": ('T = []; N = 0; while {N = N + 1; true} do {}; T pushBack "after";', False, False, True),
    "while_body": ('T = []; N = 0; B = 0; while {N = N + 1; true} do {B = B + 1}; T pushBack "after";', False, False, True),
    "while_empty_nested": ('T = []; N = 0; call { if (true) then { while {N = N + 1; true} do {} } }; T pushBack "after";', False, False, True),
    "while_sched_empty": ('T = []; N = 0; while {N = N + 1; true} do {}; T pushBack "after";', True, False, False),
    "while_sched_body": ('T = []; N = 0; while {true} do {N = N + 1};', True, False, False),
    "for_step0": ('T = []; N = 0; for "_i" from 0 to 1 step 0 do {N = N + 1}; T pushBack "after";', False, False, False),
    "recursion": ('T = []; N = 0; f = {N = N + 1; call f}; call f;', False, False, False),
    "foreach_recursion": ('T = []; N = 0; f = {N = N + 1; {call f} forEach [1]}; call f;', False, False, False),
    "spawn_mutual": ('T = []; N = 0; a = {N = N + 1; [] spawn b}; b = {N = N + 1; [] spawn a}; [] spawn a;', False, False, False),
    "waituntil": ('T = []; N = 0; waitUntil {N = N + 1; false};', True, False, False),
    "spawn_waituntil": ('T = []; N = 0; [] spawn {waitUntil {N = N + 1; false}}; T pushBack 1;', False, False, False),
    "long_sleep": ('T = []; T pushBack 1; sleep 100000; T pushBack 2;', True, False, False),
    "huge_sleep": ('T = []; T pushBack 1; sleep 1e10; T pushBack 2;', True, False, False),      # (a delay that overflows a 64 bit nanosecond time point)
    "nan_sleep_then_long": ('T = []; T pushBack 1; sleep (sqrt -1); sleep 99999; T pushBack 2;', True, False, False),
    # an array nested one level deeper per iteration: when the limit cuts the run, emptying the VM has to take it apart
    "nest_growth": ('T = []; N = 0; private _a = []; while {true} do { _a = [_a]; N = N + 1 };', True, False, False),
    "spawn_sleep": ('T = []; [] spawn {sleep 50000; T pushBack 9}; T pushBack 1;', False, False, False),
}
ENDLESS = [k for k, v in PROGRAMS.items() if not v[2]]
# expressions evaluated through the preprocessor: name -> (source, endless)
PP_EVAL = {"pp_eval": ("R = __EVAL(1 + 1);\n", False), "pp_eval_endless": ("R = __EVAL(call {while {true} do {N = 1}; 1});\n", True)}


# a script executed with the step actions: every step is a run of its own as far as the limit is concerned
STEPPED = {"step_short": "assembly_step", "line_short": "line_step", "leave_short": "leave_scope"}
HUGE_LIMIT = 9300000000000      # ms; more nanoseconds than a 64 bit time point holds


@st.composite
def _cases(draw):
    if draw(st.integers(0, 24)) == 0:
        # a clock that advances 1 us per read: the same limits allow 100 times as many instructions (deeply nested values get built)
        runs = [dict(prog=draw(st.sampled_from(["nest_growth", "nest_growth", "short", "while_sched_body"])), advance_ms=draw(st.sampled_from([0, 5000]))) for _ in range(draw(st.integers(1, 3)))]
        return dict(limit_ms=draw(st.sampled_from([300, 600])), cap=10000, runs=runs, clock_delta_us=1)
    limit = draw(st.sampled_from([0, 5, 20, 100, 500, 3000, 3000, HUGE_LIMIT]))
    cap = draw(st.sampled_from([1, 2, 7, 50, 300, 10000]))
    n = draw(st.integers(1, 5))
    runs = []
    for _ in range(n):
        if limit == 0:
            prog = draw(st.sampled_from(["short", "short_sched", "while_empty", "while_body", "while_empty_nested", "pp_eval"]))
        else:
            prog = draw(st.sampled_from(list(PROGRAMS) + ["pp_eval", "pp_eval", "pp_eval_endless"] + list(STEPPED) * 2))
        if limit == HUGE_LIMIT:
            # nothing is cut by such a limit: only programs that end by themselves (or by the loop cap) are run
            prog = draw(st.sampled_from(["short", "short_sched", "pp_eval"] + list(STEPPED)))
        adv = draw(st.sampled_from([0, 0, 1, limit * 2 + 10, 100000])) if limit != HUGE_LIMIT else draw(st.sampled_from([0, 1, 100000]))
        runs.append(dict(prog=prog, advance_ms=adv))
    return dict(limit_ms=limit, cap=cap, runs=runs)


def strategy(env):
    return _cases()


def check(case, env):
    r = env.runner()
    limit, cap = case["limit_ms"], case["cap"]
    r.new(vm=0, ops="full", virtual_clock=True, clock_delta_us=case.get("clock_delta_us", 100), max_runtime_ms=limit, loop_cap=cap)
    labs = set()
    if case.get("clock_delta_us"):
        labs.add("fine_clock")
    v = None
    elapsed_before = 0
    for idx, run in enumerate(case["runs"]):
        if run["advance_ms"]:
            r.cmd(dict(op="clock", advance_us=run["advance_ms"] * 1000))
        elapsed_before += run["advance_ms"]
        if run["prog"] in PP_EVAL:
            # an expression evaluated by the preprocessor (__EVAL) is bounded like a run of its own, whatever the age of the VM
            if limit and elapsed_before > limit:
                labs.add("old_vm")
            labs.add("pp_eval")
            src, endless_eval = PP_EVAL[run["prog"]]
            c0 = r.cmd(dict(op="clock"))["now_us"]
            try:
                rep = r.cmd(dict(op="preprocess", vm=0, text=src, fresh=True, file="/c11/eval.sqf"), timeout=20.0)
            except RunnerCrash as rc:
                if rc.kind != "timeout":
                    raise
                v = viol("eval-never-returns|" + run["prog"], "limit=%d ms cap=%d, step %d/%d: preprocessing %r (clock advanced %d ms before it, %d ms since VM creation) did not return within 20 s" % (
                    limit, cap, idx + 1, len(case["runs"]), src, run["advance_ms"], elapsed_before))
                break
            t_ms = (r.cmd(dict(op="clock"))["now_us"] - c0) / 1000.0
            ctx = "limit=%d ms cap=%d, step %d/%d: preprocess %r (clock advanced %d ms before it, %d ms since VM creation)\n  ok=%s text=%r t=%.0f ms logs=%s\n" % (
                limit, cap, idx + 1, len(case["runs"]), src, run["advance_ms"], elapsed_before, rep.get("ok"), (rep.get("text") or "")[-40:], t_ms, [l["m"][:80] for l in rep.get("logs", [])[:3]])
            if not endless_eval and (not rep.get("ok") or "R = 2;" not in (rep.get("text") or "")):
                v = viol("eval-aborted|" + ("old-vm" if elapsed_before > limit > 0 else "fresh"), ctx + "a terminating expression was not evaluated")
                break
            if endless_eval and limit and t_ms > limit + 2.5 and not (cap * 2 < limit):
                v = viol("deadline-overrun|" + run["prog"], ctx + "the evaluation took %.0f ms of virtual time, limit is %d ms" % (t_ms, limit))
                break
            continue
        if run["prog"] in STEPPED:
            if limit and elapsed_before > limit:
                labs.add("old_vm")
            labs.add("stepped")
            action = STEPPED[run["prog"]]
            src = "T = []; T pushBack 1;\nT pushBack 2;\ncall { T pushBack 3 };\nT pushBack 4;"
            r.cmd(dict(op="clearvars", vm=0))
            r.cmd(dict(op="load", vm=0, sqf=src, file="/c11/step.sqf"))
            last, steps, cutlogs = None, 0, []
            for steps in range(200):
                last = r.cmd(dict(op="action", vm=0, action=action))
                cutlogs += [l for l in last.get("logs", []) if l.get("c") == 60002]
                if last["result"] != "ok" or last.get("state") == "empty":
                    break
            rep = r.cmd(dict(op="getvar", vm=0, name="T"))
            got = vm_value(rep["value"]) if rep.get("exists") else None
            ctx = "limit=%d ms cap=%d, run %d/%d: %r loaded and executed with %s (clock advanced %d ms before it, %d ms since VM creation)\n  %d steps, last result=%s state=%s T=%s\n" % (
                limit, cap, idx + 1, len(case["runs"]), src, action, run["advance_ms"], elapsed_before, steps + 1, last.get("result"), last.get("state"), got)
            if cutlogs or got != [1.0, 2.0, 3.0, 4.0]:
                v = viol("stepped-run-aborted|" + action + "|" + ("old-vm" if elapsed_before > limit > 0 else "fresh"), ctx + "a terminating script was not executed to its end by the step action%s" % (
                    " (cut by the time limit: %s)" % cutlogs[0]["m"][:80] if cutlogs else ""))
                break
            if last.get("state") != "empty":
                r.cmd(dict(op="action", vm=0, action="abort"))
            continue
        text, sched, terminates, capped = PROGRAMS[run["prog"]]
        r.cmd(dict(op="clearvars", vm=0))
        rep = r.run(text, vm=0, scheduled=sched, getvars=["T", "N", "B"], getvars_struct=True, timeout=30.0)
        logs = rep.get("logs", [])
        cut = [l for l in logs if l["c"] == 60002]
        t_ms = rep.get("t_us", 0) / 1000.0
        T = vm_value(rep["vars"]["T"]["value"]) if "T" in rep.get("vars", {}) else None
        N = vm_value(rep["vars"]["N"]["value"]) if "N" in rep.get("vars", {}) else None
        B = vm_value(rep["vars"]["B"]["value"]) if "B" in rep.get("vars", {}) else None
        ctx = "limit=%d ms cap=%d, run %d/%d: %s (clock advanced %d ms before it, %d ms since VM creation)\n  %s\n  result=%s state=%s t=%.0f ms N=%s B=%s T=%s\n  logs: %s\n" % (
            limit, cap, idx + 1, len(case["runs"]), run["prog"], run["advance_ms"], elapsed_before, text, rep.get("result"), rep.get("state"), t_ms, N, B, T, [l["m"][:90] for l in logs[:3]])
        endless = not terminates
        if endless:
            labs.add("endless")
        if limit and elapsed_before > limit:
            labs.add("old_vm")
        will_be_capped = capped and (limit == 0 or cap * 2 < limit)     # ~<=10 clock reads (1 ms) per iteration: the cap is reached before the deadline
        if rep.get("state_after_abort", rep.get("state")) != "empty" or rep.get("ncontexts", 0) not in (0,) and rep.get("state_after_abort") is None and rep.get("result") != "runtime_error":
            if rep.get("ncontexts", 0) != 0 and rep.get("result") in ("ok", "empty"):
                v = viol("vm-not-empty", ctx + "the run returned but %d contexts are left / state %s" % (rep.get("ncontexts"), rep.get("state")))
                break
        if terminates:
            # a short program completes normally whatever the age of the VM and whatever ran before
            if cut or rep.get("result") not in ("ok", "empty") or [l for l in logs if l["l"] <= 1]:
                v = viol("short-run-aborted|" + ("old-vm" if elapsed_before > limit > 0 else "fresh"), ctx + "a terminating program was not executed normally")
                break
            exp = [1.0, 2.0, 3.0] if run["prog"] == "short" else [1.0, 2.0]
            if T != exp:
                v = viol("short-run-markers", ctx + "markers %s expected %s" % (T, exp))
                break
        else:
            if capped and (limit == 0 or will_be_capped):
                # loop cap: the loop ends by itself after at most `cap` iterations and the script goes on
                if N is None or N > cap + 1:
                    v = viol("loop-cap-exceeded|" + run["prog"], ctx + "condition evaluated %s times, cap is %d" % (N, cap))
                    break
                if B is not None and B > cap:
                    v = viol("loop-cap-exceeded|" + run["prog"], ctx + "body executed %s times, cap is %d" % (B, cap))
                    break
                if T != ["after"] and not cut:
                    v = viol("loop-cap-no-continue|" + run["prog"], ctx + "after the capped loop the script did not continue")
                    break
            elif limit:
                if capped and N is not None and N > cap + 1:
                    v = viol("loop-cap-exceeded|" + run["prog"], ctx + "condition evaluated %s times, cap is %d" % (N, cap))
                    break
                if not cut and not (capped and T == ["after"]):
                    v = viol("no-abort-diagnostic|" + run["prog"], ctx + "an endless program returned without MaximumRuntimeReached")
                    break
                if t_ms > limit + 2.5:
                    v = viol("deadline-overrun|" + run["prog"], ctx + "the run took %.0f ms of virtual time, limit is %d ms" % (t_ms, limit))
                    break
                if cut and (rep.get("state") != "empty" or rep.get("ncontexts", 0) != 0):
                    v = viol("vm-not-empty", ctx + "after the time-limit abort the VM is not empty")
                    break
    nontrivial = bool(labs & {"endless", "old_vm"})
    if nontrivial:
        labs.add("nontrivial")
    return Result(nontrivial=nontrivial, labels=sorted(labs), violation=v)
