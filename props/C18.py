"""C18 - C API contract: truthful return codes, complete logging, reusable instances."""
import json
from hypothesis import strategies as st
from engine.driver import Result, viol
from engine.runner import RunnerCrash, sanitizer_signature

ID = "C18"
LEVEL = "exploration"
ENGINE = "E-hyp"
TECHNIQUE = "model-based (stateful) property testing of the exported C API: generated call histories over 1-3 instances against a model of the documented return codes, callback delivery (user/call data) and persistence rules, on a virtual clock"
RULE = ("cases = histories of <=12 API operations over <=3 instances: create (full/basic/empty operator set, with or without maximum runtime), load_config (valid / "
        "syntax error / preprocess error), call with type in {s, p, 1, a, unknown} and text class in {succeeds, sets/reads a global, runtime error, parse error, preprocess "
        "failure (unknown directive, missing include), non-terminating and a spawned child sleeping past the limit (only with a limit), spawns children, arbitrary bytes}, status, clock jump, destroy, calls through a "
        "NULL or zeroed handle; non-trivial = a failing or aborted call is followed by another call on the same instance; distinct = SHA-1 of the history")
LEVEL_TEXT = ("Exploration against a model of the contract in sqfvm.h: every call's return code, the status afterwards, the persistence of globals/config only, and that each "
              "diagnostic reaches the callback with the instance's user data and the call's call data (an unsuccessful call delivers at least one error-level message).")
LEVEL_NOTE = ("Trusted: the model in this file, the callback recorder in runner.cpp, hook H1 (virtual clock) for time limits. Freed handles are never used (undefined by "
              "contract). Unknown type is only combined with text that preprocesses cleanly (the order of the two checks is not documented).")
ASSUMPTIONS = ["virtual clock 1 ms per read", "assembly ('a') calls are labelled assembly_type (known finding: the assembly front end crashes)"]
SIZES = {"quick": dict(budget_s=45, batch=40), "thorough": dict(budget_s=600, batch=100)}
FLOORS = {"nontrivial": 0.3}

TEXTS = {
    # class: (text, needs full/basic ops)
    "ok": ("private _a = 1 + 2; _a", True),
    "setglobal": ("GVAR_%d = %d; GVAR_%d", True),
    "readglobal": ("if (isNil 'GVAR_%d') then {-1} else {GVAR_%d}", True),
    "runtime_error": ('private _a = 1; _a + "x"; 5', True),
    "runtime_error_last": ('{5} count [1,2]', True),
    "parse_error": ("1 + ; )", False),
    "pp_unknown_directive": ("#foo bar\n1", False),
    "pp_missing_include": ('#include "no\\such\\file.hpp"\n1', False),
    "endless": ("while {true} do {GCNT = 1}", True),
    "endless_sleep": ("sleep 100000; 1", True),
    "spawn_sleeper": ("[] spawn { sleep 100000; }; 1", True),
    # an expression evaluated by the preprocessor: an error in it is an error of the call; a script it starts belongs to no later call
    "eval_error": ("private _v = __EVAL(1 + 1; [] select 9; 7); _v", True),
    "eval_spawner": ("__EVAL([] spawn { [] select 9 }; 3)", True),
    "spawn": ("SP_%d = 0; [] spawn {SP_%d = 1}; [] spawn {sleep 0.01; SP_%d = SP_%d + 1}; 7", True),
    "bytes": (None, False),
    "config_read": ('getNumber (configFile >> "CfgC18" >> "v")', True),
}


@st.composite
def _history(draw):
    ops = []
    n = draw(st.integers(4, 12))
    created = {}
    k = 0
    for _ in range(n):
        kinds = ["create"] if not created else ["call", "call", "call", "call", "call", "load_config", "status", "clock", "create", "destroy", "bad_handle"]
        c = draw(st.sampled_from(kinds))
        if c == "create":
            inst = draw(st.integers(0, 2))
            flavour = draw(st.sampled_from(["create", "create", "create_basic", "create_empty"]))
            limit = draw(st.sampled_from([0, 0, 0.05, 0.5]))
            ops.append(["create", inst, flavour, limit])
            created[inst] = (flavour, limit)
        elif c == "destroy":
            inst = draw(st.sampled_from(sorted(created)))
            ops.append(["destroy", inst])
            del created[inst]
        elif c == "call":
            inst = draw(st.sampled_from(sorted(created)))
            flavour, limit = created[inst]
            typ = draw(st.sampled_from(["s"] * 10 + ["p", "p", "1", "1", "?", "?", "a"]))
            classes = ["ok", "setglobal", "readglobal", "runtime_error", "runtime_error_last", "parse_error", "pp_unknown_directive", "pp_missing_include", "spawn", "bytes", "config_read", "eval_error", "eval_spawner"]
            if limit > 0:
                classes += ["endless", "endless", "endless_sleep", "spawn_sleeper", "spawn_sleeper"]
            cls = draw(st.sampled_from(classes))
            k += 1
            if cls == "bytes":
                text = draw(st.binary(max_size=40)).decode("latin-1")
            else:
                text = TEXTS[cls][0]
                if "%d" in text:
                    g = draw(st.integers(0, 2))
                    text = text.replace("%d", str(g)) if cls != "setglobal" else "GVAR_%d = %d; GVAR_%d" % (g, k, g)
            ops.append(["call", inst, typ, cls, text, 1000 + k])
        elif c == "load_config":
            inst = draw(st.sampled_from(sorted(created)))
            k += 1
            cls = draw(st.sampled_from(["valid", "valid", "syntax", "pp"]))
            text = {"valid": "class CfgC18 { v = %d; };" % k, "syntax": "class CfgC18 { v = ; ", "pp": "#foo\nclass X {};"}[cls]
            ops.append(["load_config", inst, cls, text, k])
        elif c == "status":
            ops.append(["status", draw(st.sampled_from(sorted(created)))])
        elif c == "clock":
            ops.append(["clock", draw(st.sampled_from([1, 100, 100000]))])
        elif c == "bad_handle":
            ops.append(["bad_handle", draw(st.sampled_from(["null", "zeroed"])), draw(st.sampled_from(["call", "load_config", "status", "destroy"]))])
    return dict(ops=ops)


def strategy(env):
    return _history()


def check(case, env):
    r = env.runner(timeout=8.0)
    r.restart() if env.cache.get("dirty") else None       # API instances live in the runner process: start every history clean
    env.cache["dirty"] = True
    r.cmd(dict(op="clock", enabled=True, delta_us=1000))
    insts = {}         # inst -> dict(flavour, limit, globals{}, config_v, user_data)
    labs = set()
    v = None
    failed_before = set()
    trace = []
    try:
        for i, op in enumerate(case["ops"]):
            k = op[0]
            trace.append(op)
            ctx = "history: %s\n" % json.dumps(trace)
            if k == "create":
                _, inst, flavour, limit = op
                if inst in insts:
                    r.cmd(dict(op="api", fn="destroy", inst=inst))
                ud = 7000 + inst * 10 + i
                r.cmd(dict(op="api", fn=flavour, inst=inst, user_data=ud, max_runtime_s=limit))
                insts[inst] = dict(flavour=flavour, limit=limit, globals={}, config_v=None, ud=ud)
                failed_before.discard(inst)
            elif k == "destroy":
                r.cmd(dict(op="api", fn="destroy", inst=op[1]))
                insts.pop(op[1], None)
            elif k == "clock":
                r.cmd(dict(op="clock", advance_us=op[1] * 1000))
            elif k == "status":
                rep = r.cmd(dict(op="api", fn="status", inst=op[1]))
                if rep["rc"] != 0:
                    v = viol("status-not-idle", ctx + "sqfvm_status returned %d between calls (0 = idle expected)" % rep["rc"])
            elif k == "bad_handle":
                fn = op[2]
                rep = r.cmd(dict(op="api", fn=fn, inst=0, handle=op[1], code="1", type="s", call_data=1))
                labs.add("bad_handle")
                if rep["rc"] != -1:
                    v = viol("invalid-handle-code|" + fn, ctx + "%s through a %s handle returned %d, documented: -1" % (fn, op[1], rep["rc"]))
            elif k == "load_config":
                _, inst, cls, text, kk = op
                st_ = insts[inst]
                rep = r.cmd(dict(op="api", fn="load_config", inst=inst, code=text))
                exp = {"valid": 0, "syntax": -3, "pp": -2}[cls]
                if rep["rc"] != exp:
                    v = viol("load_config-code|" + cls, ctx + "sqfvm_load_config (%s config) returned %d, documented: %d" % (cls, rep["rc"], exp))
                elif cls == "valid":
                    st_["config_v"] = float(kk)
                if cls != "valid":
                    failed_before.add(inst)
                if v is None and any(c["ud"] != st_["ud"] for c in rep["cb"]):
                    v = viol("callback-user-data", ctx + "a diagnostic was delivered with foreign user data: %s" % rep["cb"][:3])
                if v is None and any(c["cd"] not in (0, None) for c in rep["cb"]):
                    # sqfvm_load_config takes no call data: its diagnostics must not carry the pointer of some earlier sqfvm_call
                    v = viol("load_config-stale-call-data", ctx + "a diagnostic of sqfvm_load_config was delivered with the call data of an earlier call: %s" % [(c["cd"], (c["m"] or "")[:50]) for c in rep["cb"][:3]])
            elif k == "call":
                _, inst, typ, cls, text, cd = op
                st_ = insts[inst]
                has_ops = st_["flavour"] != "create_empty"
                if typ == "a":
                    labs.add("assembly_type")
                if inst in failed_before:
                    labs.add("call_after_failure")
                rep = r.cmd(dict(op="api", fn="call", inst=inst, type=("Z" if typ == "?" else typ), code=text, call_data=cd))
                rc = rep["rc"]
                cb = rep["cb"]
                errors = [c for c in cb if 0 <= c["sev"] <= 1]
                # ---- expected code
                exp = None
                pp_fail = cls in ("pp_unknown_directive", "pp_missing_include")
                if cls == "bytes":
                    exp = None           # whatever the bytes mean: only the general rules below
                elif cls == "eval_error":
                    # the error raised inside __EVAL is an error of this call; which stage reports it is not fixed by the contract,
                    # and for the types that do not execute (p, 1, unknown) nothing is asserted
                    exp = "nonzero" if (typ == "s" and has_ops) else None
                elif pp_fail:
                    exp = -2
                elif not has_ops and typ in ("s", "1", "?") and cls != "parse_error":
                    exp = None           # no operators registered: `+`, `=`-free texts aside, most texts do not even parse; only the general rules
                elif typ == "?":
                    exp = -5
                elif typ == "p":
                    exp = 0
                elif typ == "a":
                    exp = None
                elif cls == "parse_error":
                    exp = -3
                elif typ == "1":
                    exp = 0
                elif not has_ops:
                    exp = None           # no operators registered: most texts cannot run; only general rules
                elif cls in ("runtime_error", "runtime_error_last", "endless", "endless_sleep", "spawn_sleeper"):
                    exp = -6
                else:
                    exp = 0
                if exp == "nonzero":
                    if rc == 0 and typ == "s":
                        v = viol("return-code|%s|%s|got0" % (typ, cls), ctx + "sqfvm_call(%s text %r) returned 0 although an error was raised while it was processed\ncallback: %s" % (
                            cls, text, [(c["sev"], (c["m"] or "")[:70]) for c in cb[:4]]))
                    exp = None
                if exp is not None and rc != exp:
                    v = viol("return-code|%s|%s|got%d" % (typ, cls, rc), ctx + "sqfvm_call(type %r, %s text %r) returned %d, the contract says %d\ncallback: %s" % (
                        typ, cls, text, rc, exp, [(c["sev"], (c["m"] or "")[:70]) for c in cb[:4]]))
                if v is None and rc not in (0, -2, -3, -5, -6):
                    v = viol("return-code-undocumented|%d" % rc, ctx + "sqfvm_call returned %d, which is not a documented code for a valid idle instance" % rc)
                if v is None and rc in (-2, -3, -6) and not errors:
                    v = viol("unsuccessful-without-error-message|%d" % rc, ctx + "the call returned %d but no error-level message reached the callback: %s" % (rc, [(c["sev"], (c["m"] or "")[:60]) for c in cb[:4]]))
                if v is None:
                    for c in cb:
                        if c["ud"] != st_["ud"] or c["cd"] != cd:
                            v = viol("callback-data", ctx + "a message of this call was delivered with user data %s / call data %s (expected %s / %s)" % (c["ud"], c["cd"], st_["ud"], cd))
                            break
                # ---- results visible through the log: value of the script
                if v is None and rc == 0 and typ == "s" and has_ops and cls in ("setglobal", "readglobal", "config_read", "ok", "spawn"):
                    vals = [c["m"] for c in cb if "return value" in (c["m"] or "")]
                    want = None
                    if cls == "ok":
                        want = "3"
                    elif cls == "setglobal":
                        g = int(text.split("_")[1].split(" ")[0])
                        st_["globals"][g] = text.split("= ")[1].split(";")[0]
                        want = st_["globals"][g]
                    elif cls == "readglobal":
                        g = int(text.split("GVAR_")[1].split("'")[0])
                        want = st_["globals"].get(g, "-1")
                    elif cls == "config_read":
                        want = ("%g" % st_["config_v"]) if st_["config_v"] is not None else "0"
                    elif cls == "spawn":
                        want = "7"
                    if want is not None and not any(("`%s`" % want) in m for m in vals):
                        kind = "persistence" if cls in ("readglobal", "config_read") else "result"
                        v = viol("%s|%s" % (kind, cls), ctx + "the call should yield %s (globals and config persist, nothing else), callback says: %s" % (want, vals[:2] or [(c["sev"], (c["m"] or "")[:60]) for c in cb[:3]]))
                if cls == "setglobal" and (rc != 0 or typ != "s" or not has_ops):
                    pass
                if rc != 0:
                    failed_before.add(inst)
                # ---- instance idle after every call
                if v is None:
                    s2 = r.cmd(dict(op="api", fn="status", inst=inst))
                    if s2["rc"] != 0:
                        v = viol("status-not-idle|after-%s" % cls, ctx + "after the call returned %d sqfvm_status is %d (0 = idle expected)" % (rc, s2["rc"]))
            if v is not None:
                break
    except RunnerCrash as rc:
        ctx = "history: %s\n" % json.dumps(trace)
        if rc.kind == "timeout":
            v = viol("hang|%s" % trace[-1][0], ctx + "the API call did not return within 8 s")
        else:
            last = trace[-1]
            tag = "%s|%s" % (last[0], last[2] if last[0] == "call" else "")
            v = viol("crash|%s|%s" % (tag, sanitizer_signature(rc.detail)), ctx + "the process crashed inside the API:\n" + rc.detail[-1200:])
    for inst in list(insts):
        try:
            r.cmd(dict(op="api", fn="destroy", inst=inst))
        except Exception:
            pass
    nontrivial = "call_after_failure" in labs
    if nontrivial:
        labs.add("nontrivial")
    return Result(nontrivial=nontrivial, labels=sorted(labs), violation=v)
