// libFuzzer target for C17 (PBO reader: exact on well-formed archives, total on damaged ones).
//
// Input: the bytes of an archive. They are written to a private file (the reader
// only opens paths) and loaded twice. In-target oracle:
//   * the reader returns (no crash / sanitizer report / escaped exception; hangs via -timeout)
//   * accepted => every entry can be read, a read never yields more bytes than the entry
//     declares, and all entries together never yield more bytes than the file holds
//   * accepted => no entry declares more bytes than the file holds
//   * the same bytes give the same verdict, properties, entry list and entry bytes twice
//   * loading leaves the file untouched
// props/C17.py extra() replays every artifact through the runner as a `raw` case,
// where a Python reference parser adds the exactness oracle.
#include <algorithm>
#include "rvutils/pbofile.hpp"

#include <cstdint>
#include <cstdio>
#include <cstdlib>
#include <cstring>
#include <filesystem>
#include <fstream>
#include <string>
#include <unistd.h>
#include <vector>

namespace
{
    std::string g_path;

    struct Listing
    {
        bool good = false;
        std::vector<std::pair<std::string, std::string>> attrs;
        std::vector<std::pair<std::string, std::string>> files; // name, bytes read
        std::vector<size_t> sizes;
        bool operator==(const Listing& o) const { return good == o.good && attrs == o.attrs && files == o.files && sizes == o.sizes; }
    };

    [[noreturn]] void fail(const char* what, const std::string& detail)
    {
        fprintf(stderr, "\nFUZZ-ORACLE: %s %s\n", what, detail.substr(0, 300).c_str());
        fflush(stderr);
        __builtin_trap();
    }

    Listing load(size_t file_size)
    {
        Listing l;
        std::filesystem::path p(g_path);
        rvutils::pbo::pbofile pbo(p);
        l.good = pbo.good();
        if (!l.good) return l;
        for (auto& a : pbo.attributes()) l.attrs.push_back({ a.first, a.second });
        size_t total = 0;
        for (auto& fd : pbo.files())
        {
            l.sizes.push_back(fd.size);
            if (fd.size > file_size) fail("size-from-header", "entry " + fd.name + " declares " + std::to_string(fd.size) + " bytes in a " + std::to_string(file_size) + " byte file");
            rvutils::pbo::pbofile::reader rd;
            std::string buf;
            if (pbo.read(fd.name, rd))
            {
                size_t want = rd.descriptor().size;
                if (want > file_size) fail("size-from-header", "reader of " + fd.name + " declares " + std::to_string(want) + " bytes");
                buf.resize(want + 16);
                size_t n = rd.read(buf.data(), (std::streamsize)buf.size());
                if (n > want) fail("read-beyond-entry", fd.name + ": " + std::to_string(n) + " > " + std::to_string(want));
                buf.resize(n);
                // entries are read by name: a duplicate name yields the same bytes again and is counted once
                bool dup = false;
                for (auto& f : l.files) { if (f.first == fd.name) dup = true; }
                if (!dup) total += n;
            }
            l.files.push_back({ fd.name, buf });
        }
        if (total > file_size) fail("more-bytes-than-file", std::to_string(total) + " > " + std::to_string(file_size));
        return l;
    }
}

extern "C" int LLVMFuzzerTestOneInput(const uint8_t* data, size_t size)
{
    if (g_path.empty())
    {
        const char* dir = getenv("FUZZ_TMP");
        g_path = std::string(dir ? dir : "/dev/shm") + "/fuzz_pbo_" + std::to_string(getpid()) + ".pbo";
    }
    {
        std::ofstream f(g_path, std::ios::binary | std::ios::trunc);
        f.write(reinterpret_cast<const char*>(data), (std::streamsize)size);
    }
    Listing a, b;
    try
    {
        a = load(size);
        b = load(size);
    }
    catch (const std::exception& ex)
    {
        fail("exception", ex.what());
    }
    if (!(a == b)) fail("nondeterministic", "second load differs");
    std::error_code ec;
    auto now_size = std::filesystem::file_size(g_path, ec);
    if (ec || now_size != size) fail("filesystem-modified", "file size changed");
    {
        std::ifstream f(g_path, std::ios::binary);
        std::string back((std::istreambuf_iterator<char>(f)), std::istreambuf_iterator<char>());
        if (back.size() != size || (size && memcmp(back.data(), data, size) != 0)) fail("filesystem-modified", "file content changed");
    }
    return 0;
}
