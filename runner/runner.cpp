// Verification runner: a persistent process that links the real SQF-VM sources
// (libcore.a built from /repo/src) and executes commands sent as one JSON
// object per line on stdin; one JSON reply per line on stdout.
//
// Nothing in here re-implements VM behaviour: every command ends in a call of
// the production entry points (parser::parse, runtime::execute, sqfvm_call,
// pbofile, impl_default ...). Oracles live in Python.
#include "json.hpp"

#include "runtime/logging.h"
#include "runtime/runtime.h"
#include "runtime/d_array.h"
#include "runtime/d_string.h"
#include "runtime/d_scalar.h"
#include "runtime/d_boolean.h"
#include "runtime/d_code.h"
#include "runtime/verif_hooks.h"
#include "parser/config/config_parser.hpp"
#include "parser/assembly/assembly_parser.h"
#include "parser/sqf/sqf_parser.hpp"
#include "parser/sqf/sqf_formatter.h"
#include "parser/preprocessor/default.h"
#include "operators/ops.h"
#include "operators/ops_hashmap.h"
#include "operators/ops_namespace.h"
#include "fileio/default.h"
#include "rvutils/pbofile.hpp"
#include "export/sqfvm.h"
#include "opcodes/common.h"

#include <iostream>
#include <fstream>
#include <sstream>
#include <thread>
#include <mutex>
#include <condition_variable>
#include <atomic>
#include <cstring>
#include <unistd.h>
#include <fcntl.h>
#include <sys/stat.h>

using namespace std::string_literals;
namespace rt = sqf::runtime;

// errors of the harness itself (never attributed to the code under test)
struct HarnessError : public std::runtime_error { using std::runtime_error::runtime_error; };

// ---------------------------------------------------------------- logging
struct LogEntry { int level; size_t code; std::string text; std::string path; long line; long col; bool has_loc; };

class CollectLogger : public Logger
{
public:
    std::vector<LogEntry> entries;
    std::mutex mtx;
    size_t cap = 20000;
    size_t dropped = 0;
    void log(const LogMessageBase& message) override
    {
        std::lock_guard<std::mutex> g(mtx);
        if (entries.size() >= cap) { dropped++; return; }
        LogEntry e;
        e.level = (int)message.getLevel();
        e.code = message.getErrorCode();
        e.text = message.formatMessage();
        e.has_loc = false; e.line = 0; e.col = 0;
        if (auto r = dynamic_cast<const logmessage::RuntimeLogMessageBase*>(&message))
        {
            auto loc = r->location();
            e.has_loc = true; e.path = loc.path; e.line = (long)loc.line; e.col = (long)loc.col;
        }
        entries.push_back(std::move(e));
    }
    J take()
    {
        std::lock_guard<std::mutex> g(mtx);
        J a = J::arr();
        for (auto& e : entries)
        {
            J o = J::obj();
            o.set("l", e.level).set("c", (unsigned long)e.code).set("m", e.text);
            if (e.has_loc) { o.set("p", e.path).set("ln", e.line).set("col", e.col); }
            a.push(std::move(o));
        }
        entries.clear();
        if (dropped) { J o = J::obj(); o.set("l", 99).set("c", 0).set("m", "dropped " + std::to_string(dropped)); a.push(o); dropped = 0; }
        return a;
    }
};

// ---------------------------------------------------------------- virtual clock + observers (hooks)
struct Clock
{
    bool enabled = false;
    long long now_us = 1600000000LL * 1000000LL; // arbitrary fixed epoch
    long long delta_us = 0;                       // advance per read
    unsigned long long reads = 0;
};
static Clock g_clock;
static size_t g_slice = 150;

static std::chrono::system_clock::time_point hook_now(void*)
{
    g_clock.reads++;
    g_clock.now_us += g_clock.delta_us;
    return std::chrono::system_clock::time_point(std::chrono::microseconds(g_clock.now_us));
}
static size_t hook_slice(void*) { return g_slice; }

// Observation record kept by the instruction observer (C05, C12, C19)
struct Obs
{
    bool enabled = false;
    bool record = false;           // keep per-instruction records
    size_t max_records = 200000;
    unsigned long long count = 0;  // instructions executed (phase 0 seen)
    // C05 invariants, checked in C++ at every boundary
    bool check_stack = false;
    std::vector<std::string> stack_violations;
    unsigned long long seq = 0;    // global order of records and scheduler visits
    struct Rec { const void* ctx; int ctx_id; size_t frames; size_t values; long line; std::string inst; long long t_us; unsigned long long seq; };
    std::vector<Rec> recs;
    std::map<const void*, int> ctx_ids;
    struct Slice { int ctx_id; bool suspended; long long wake_us; long long t_us; size_t idx; size_t nctx; unsigned long long seq; };
    std::vector<Slice> slices;
    std::atomic<int> inside{ 0 };
    int max_inside = 0;
    void reset() { seq = 0; count = 0; stack_violations.clear(); recs.clear(); ctx_ids.clear(); slices.clear(); max_inside = 0; }
    int id_of(const void* c) { auto it = ctx_ids.find(c); if (it != ctx_ids.end()) return it->second; int id = (int)ctx_ids.size(); ctx_ids[c] = id; return id; }
};
static Obs g_obs;

// --- harness-owned schedule (C19): the executor blocks at instruction k until released
struct Gate
{
    std::mutex m; std::condition_variable cv;
    long long block_at = -1;     // instruction index (count before executing) at which executor blocks
    bool blocked = false;        // executor is currently waiting
    bool release = false;
};
static Gate g_gate;

struct StackSnap { std::vector<size_t> bases; size_t values; };

static void check_stack_invariants(rt::runtime& r, const rt::instruction* inst, int phase)
{
    auto& ctx = r.context_active();
    // frame bases non-decreasing and <= values_size
    size_t prev = 0; bool first = true; size_t idx = 0;
    std::vector<size_t> bases;
    for (auto it = ctx.frames_rbegin(); it != ctx.frames_rend(); ++it) { bases.push_back(it->value_stack_pos()); }
    std::reverse(bases.begin(), bases.end());
    for (auto b : bases)
    {
        if (!first && b < prev)
        {
            if (g_obs.stack_violations.size() < 20) g_obs.stack_violations.push_back("frame base decreasing at frame " + std::to_string(idx) + " (" + std::to_string(b) + " < " + std::to_string(prev) + ") at " + inst->to_string());
        }
        prev = b; first = false; idx++;
    }
    if (!bases.empty() && bases.back() > ctx.values_size())
    {
        if (g_obs.stack_violations.size() < 20) g_obs.stack_violations.push_back("top frame base " + std::to_string(bases.back()) + " > values_size " + std::to_string(ctx.values_size()) + " at " + inst->to_string() + " phase " + std::to_string(phase));
    }
    if (phase == 1 && dynamic_cast<const sqf::opcodes::end_statement*>(inst) != nullptr && !ctx.empty())
    {
        if (ctx.values_size() != ctx.current_frame().value_stack_pos())
        {
            if (g_obs.stack_violations.size() < 20) g_obs.stack_violations.push_back("after ENDSTATEMENT values_size " + std::to_string(ctx.values_size()) + " != frame base " + std::to_string(ctx.current_frame().value_stack_pos()));
        }
    }
}

static void hook_instruction(void*, rt::runtime& r, const rt::instruction* inst, int phase)
{
    if (!g_obs.enabled) return;
    if (phase == 0)
    {
        int n = ++g_obs.inside;
        if (n > g_obs.max_inside) g_obs.max_inside = n;
        if (g_gate.block_at >= 0 && (long long)g_obs.count == g_gate.block_at)
        {
            std::unique_lock<std::mutex> lk(g_gate.m);
            g_gate.blocked = true;
            g_gate.cv.notify_all();
            g_gate.cv.wait(lk, [] { return g_gate.release; });
            g_gate.blocked = false; g_gate.release = false; g_gate.block_at = -1;
        }
        g_obs.count++;
        if (g_obs.record && g_obs.recs.size() < g_obs.max_records)
        {
            auto& ctx = r.context_active();
            Obs::Rec rec;
            rec.ctx = &ctx; rec.ctx_id = g_obs.id_of(&ctx);
            rec.frames = ctx.frames_size(); rec.values = ctx.values_size();
            rec.line = (long)inst->diag_info().line; rec.inst = inst->to_string();
            rec.t_us = g_clock.now_us;
            rec.seq = ++g_obs.seq;
            g_obs.recs.push_back(std::move(rec));
        }
    }
    if (g_obs.check_stack) check_stack_invariants(r, inst, phase);
    if (phase == 1) { --g_obs.inside; }
}
static void hook_slice_begin(void*, rt::runtime& r, size_t idx)
{
    if (!g_obs.enabled || !g_obs.record) return;
    if (g_obs.slices.size() >= g_obs.max_records) return;
    auto sp = r.context_active_as_shared();
    Obs::Slice s;
    s.ctx_id = g_obs.id_of(sp.get());
    s.suspended = sp->suspended();
    s.wake_us = std::chrono::duration_cast<std::chrono::microseconds>(sp->wakeup_timestamp().time_since_epoch()).count();
    s.t_us = g_clock.now_us; s.idx = idx;
    s.nctx = (size_t)(r.context_end() - r.context_begin());
    s.seq = ++g_obs.seq;
    g_obs.slices.push_back(s);
}

static void install_hooks()
{
    auto& h = sqf::verif::g_hooks;
    h.now = g_clock.enabled ? hook_now : nullptr;
    h.slice = hook_slice;
    h.instruction = hook_instruction;
    h.slice_begin = hook_slice_begin;
}

// ---------------------------------------------------------------- VM instances
struct VM
{
    CollectLogger logger;
    std::unique_ptr<rt::runtime> r;
};
static std::map<int, std::unique_ptr<VM>> g_vms;

static VM& vm_of(const J& cmd)
{
    int id = (int)cmd.inum("vm", 0);
    auto it = g_vms.find(id);
    if (it == g_vms.end()) throw HarnessError("no such vm " + std::to_string(id));
    return *it->second;
}

static void setup_vm(VM& vm, const J& cmd)
{
    rt::runtime::runtime_conf conf;
    conf.max_runtime = std::chrono::milliseconds((long long)cmd.num("max_runtime_ms", 0));
    conf.disable_sleep = false;
    conf.enable_classname_check = cmd.boolean("classname_check", true);
    conf.disable_networking = true;
    conf.print_context_work_to_log_on_exit = cmd.boolean("print_work", true);
    if (cmd.has("loop_cap")) conf.max_loop_iterations_in_unscheduled = (size_t)cmd.num("loop_cap");
    vm.r = std::make_unique<rt::runtime>(vm.logger, conf);
    vm.r->fileio(std::make_unique<sqf::fileio::impl_default>(vm.logger));
    vm.r->parser_config(std::make_unique<sqf::parser::config::parser>(vm.logger));
    vm.r->parser_preprocessor(std::make_unique<sqf::parser::preprocessor::impl_default>(vm.logger));
    vm.r->parser_sqf(std::make_unique<sqf::parser::sqf::parser>(vm.logger));
    std::string ops = cmd.str("ops", "full");
    if (ops == "full") sqf::operators::ops(*vm.r);
    else if (ops == "basic")
    {
        sqf::operators::ops_config(*vm.r); sqf::operators::ops_diag(*vm.r); sqf::operators::ops_generic(*vm.r);
        sqf::operators::ops_logic(*vm.r); sqf::operators::ops_math(*vm.r); sqf::operators::ops_namespace(*vm.r);
        sqf::operators::ops_sqfvm(*vm.r); sqf::operators::ops_string(*vm.r); sqf::operators::ops_text(*vm.r);
        sqf::operators::ops_osspecific(*vm.r); sqf::operators::ops_hashmap(*vm.r);
    }
    if (auto m = cmd.find("mappings"))
    {
        for (auto& e : m->a) vm.r->fileio().add_mapping(e.a.at(0).s, e.a.at(1).s);
    }
    // synthetic operators (what --command-dummy-* does through register_sqfop)
    if (auto so = cmd.find("synthetic"))
    {
        for (auto& e : so->a)
        {
            std::string cls = e.str("kind"); std::string name = e.str("name");
            if (cls == "n") vm.r->register_sqfop(rt::sqfop::nular(name, "", [](rt::runtime&) -> rt::value { return {}; }));
            else if (cls == "u") vm.r->register_sqfop(rt::sqfop::unary(name, sqf::types::t_any(), "", [](rt::runtime&, rt::value::cref) -> rt::value { return {}; }));
            else if (cls == "b") vm.r->register_sqfop(rt::sqfop::binary((short)e.num("prec", 4), name, sqf::types::t_any(), sqf::types::t_any(), "", [](rt::runtime&, rt::value::cref, rt::value::cref) -> rt::value { return {}; }));
        }
    }
}

// ---------------------------------------------------------------- helpers
static J value_json(const rt::value& v, int depth = 0);
static J listing_deep(const rt::instruction_set& set);

static std::string float_bits(float f) { uint32_t u; memcpy(&u, &f, 4); char b[16]; snprintf(b, sizeof b, "%08x", u); return b; }

static size_t g_value_json_nodes = 0;   // per command: a cyclic value with fan-out >= 2 must not be unfolded 2^40 times
static J value_json(const rt::value& v, int depth)
{
    // structural rendering of a value, independent of to_string_sqf
    J o = J::obj();
    if (v.empty()) { o.set("t", "nil"); return o; }
    auto tname = std::string(v.type().to_string());
    o.set("t", tname);
    if (depth > 40 || ++g_value_json_nodes > 200000) { o.set("deep", true); return o; }
    if (auto s = v.data_try<sqf::types::d_scalar>()) { o.set("bits", float_bits(s->value())); o.set("v", (double)s->value()); }
    else if (auto b = v.data_try<sqf::types::d_boolean>()) { o.set("v", b->value()); }
    else if (auto st = v.data_try<sqf::types::d_string>()) { o.set("v", st->value()); }
    else if (auto a = v.data_try<sqf::types::d_array>())
    {
        J arr = J::arr();
        for (auto& e : a->value()) arr.push(value_json(e, depth + 1));
        o.set("v", arr);
    }
    else if (auto c = v.data_try<sqf::types::d_code>())
    {
        o.set("v", listing_deep(c->value()));
    }
    else if (auto h = v.data_try<sqf::types::d_hashmap>())
    {
        J arr = J::arr();
        for (auto& kv : h->map()) { J p = J::arr(); p.push(value_json(kv.first, depth + 1)); p.push(value_json(kv.second, depth + 1)); arr.push(p); }
        o.set("v", arr);
    }
    else { o.set("v", v.to_string_sqf()); }
    return o;
}

// build a value directly through the C++ API (no SQF parsing on the way in)
static rt::value build_value(VM& vm, const J& j)
{
    std::string t = j.str("t");
    if (t == "nil") return {};
    if (t == "num") return rt::value(std::make_shared<sqf::types::d_scalar>((float)j.num("v")));
    if (t == "bits") { uint32_t u = (uint32_t)strtoul(j.str("v").c_str(), nullptr, 16); float f; memcpy(&f, &u, 4); return rt::value(std::make_shared<sqf::types::d_scalar>(f)); }
    if (t == "bool") return rt::value(j.boolean("v"));
    if (t == "str") return rt::value(std::make_shared<sqf::types::d_string>(j.str("v")));
    if (t == "arr")
    {
        std::vector<rt::value> vec;
        for (auto& e : j.at("v").a) vec.push_back(build_value(vm, e));
        return rt::value(std::make_shared<sqf::types::d_array>(vec));
    }
    if (t == "code")
    {
        auto set = vm.r->parser_sqf().parse(*vm.r, j.str("v"), { "code"s, {} });
        if (!set.has_value()) throw HarnessError("build_value: code does not parse");
        return rt::value(std::make_shared<sqf::types::d_code>(*set));
    }
    if (t == "map")
    {
        auto m = std::make_shared<sqf::types::d_hashmap>();
        for (auto& e : j.at("v").a) m->map()[build_value(vm, e.a.at(0))] = build_value(vm, e.a.at(1));
        return rt::value(m);
    }
    throw HarnessError("build_value: unknown tag " + t);
}

static J listing(const rt::instruction_set& set)
{
    J arr = J::arr();
    for (auto& i : set)
    {
        arr.push(i->to_string());
    }
    return arr;
}
// instruction listing with nested code expanded (PUSH <code> -> ["CODE", [..]])
static J listing_deep(const rt::instruction_set& set)
{
    J arr = J::arr();
    for (auto& i : set)
    {
        if (auto p = dynamic_cast<const sqf::opcodes::push*>(i.get()))
        {
            if (auto c = p->value().data_try<sqf::types::d_code>())
            {
                J e = J::arr(); e.push("CODE"); e.push(listing_deep(c->value())); arr.push(e); continue;
            }
        }
        arr.push(i->to_string());
    }
    return arr;
}
static J listing_pos(const rt::instruction_set& set)
{
    J arr = J::arr();
    for (auto& i : set)
    {
        J e = J::arr();
        auto d = i->diag_info();
        e.push(i->to_string()); e.push((unsigned long)d.line); e.push((unsigned long)d.column); e.push(d.path.physical);
        arr.push(e);
    }
    return arr;
}

static const char* state_name(rt::runtime::state s)
{
    switch (s)
    {
    case rt::runtime::state::empty: return "empty";
    case rt::runtime::state::halted: return "halted";
    case rt::runtime::state::running: return "running";
    case rt::runtime::state::halted_error: return "halted_error";
    case rt::runtime::state::evaluating: return "evaluating";
    }
    return "?";
}
static const char* result_name(rt::runtime::result s)
{
    switch (s)
    {
    case rt::runtime::result::invalid: return "invalid";
    case rt::runtime::result::empty: return "empty";
    case rt::runtime::result::ok: return "ok";
    case rt::runtime::result::action_error: return "action_error";
    case rt::runtime::result::runtime_error: return "runtime_error";
    }
    return "?";
}
static rt::runtime::action action_of(const std::string& a)
{
    if (a == "start") return rt::runtime::action::start;
    if (a == "stop") return rt::runtime::action::stop;
    if (a == "abort") return rt::runtime::action::abort;
    if (a == "assembly_step") return rt::runtime::action::assembly_step;
    if (a == "line_step") return rt::runtime::action::line_step;
    if (a == "leave_scope") return rt::runtime::action::leave_scope;
    if (a == "reset_run_atomic") return rt::runtime::action::reset_run_atomic;
    return rt::runtime::action::invalid;
}

static J contexts_json(VM& vm)
{
    J arr = J::arr();
    for (auto it = vm.r->context_begin(); it != vm.r->context_end(); ++it)
    {
        auto& c = **it;
        J o = J::obj();
        o.set("frames", (unsigned long)c.frames_size()).set("values", (unsigned long)c.values_size()).set("suspended", c.suspended()).set("name", c.name());
        J bases = J::arr();
        std::vector<size_t> b;
        for (auto f = c.frames_rbegin(); f != c.frames_rend(); ++f) b.push_back(f->value_stack_pos());
        for (auto r = b.rbegin(); r != b.rend(); ++r) bases.push((unsigned long)*r);
        o.set("bases", bases);
        if (!c.empty())
        {
            bool ok = false;
            auto nx = c.current_frame().peek(ok);
            if (ok) { o.set("next", (*nx)->to_string()).set("next_line", (unsigned long)(*nx)->diag_info().line); }
        }
        arr.push(o);
    }
    return arr;
}

static J obs_json()
{
    J o = J::obj();
    o.set("count", g_obs.count).set("max_inside", g_obs.max_inside);
    J sv = J::arr(); for (auto& s : g_obs.stack_violations) sv.push(s); o.set("stack_violations", sv);
    if (g_obs.record)
    {
        J recs = J::arr();
        for (auto& r : g_obs.recs) { J e = J::arr(); e.push(r.ctx_id); e.push((unsigned long)r.frames); e.push((unsigned long)r.values); e.push(r.line); e.push(r.inst); e.push(r.t_us); e.push(r.seq); recs.push(e); }
        o.set("recs", recs);
        J sl = J::arr();
        for (auto& s : g_obs.slices) { J e = J::arr(); e.push(s.ctx_id); e.push(s.suspended); e.push(s.wake_us); e.push(s.t_us); e.push((unsigned long)s.idx); e.push((unsigned long)s.nctx); e.push(s.seq); sl.push(e); }
        o.set("slices", sl);
    }
    return o;
}

// ---------------------------------------------------------------- C API callback log
struct ApiLog { std::mutex m; J entries = J::arr(); };
static ApiLog g_apilog;
static void api_callback(void* user_data, void* call_data, int32_t severity, const char* message, uint32_t length)
{
    std::lock_guard<std::mutex> g(g_apilog.m);
    J o = J::obj();
    o.set("ud", (long long)(intptr_t)user_data).set("cd", (long long)(intptr_t)call_data).set("sev", (int)severity);
    if (message != nullptr) o.set("m", std::string(message, length)); else o.set("m", J());
    g_apilog.entries.push(o);
}
static std::map<int, void*> g_api_instances;

// ---------------------------------------------------------------- threads (C19/C20)
struct Executor
{
    std::thread th;
    std::atomic<bool> done{ false };
    std::string result;
};
static std::map<int, std::unique_ptr<Executor>> g_execs;

// ---------------------------------------------------------------- command handlers
static std::string g_errfile;

static J do_parse_and_load(VM& vm, const J& cmd, bool& ok, J& reply)
{
    // returns nothing; loads a context. ok=false if preprocess/parse failed.
    std::string text = cmd.str("sqf");
    std::string file = cmd.str("file", "verif.sqf");
    rt::fileio::pathinfo pinfo{ std::string(file), std::string(cmd.str("vfile", "")) };
    ok = true;
    if (cmd.boolean("pp", false))
    {
        auto pp = vm.r->parser_preprocessor().preprocess(*vm.r, text, pinfo);
        if (!pp.has_value()) { ok = false; reply.set("stage", "preprocess"); return {}; }
        text = *pp;
        if (cmd.boolean("want_pp", false)) reply.set("pp_text", text);
    }
    std::optional<rt::instruction_set> set;
    if (cmd.str("kind", "sqf") == "asm")
    {
        sqf::parser::assembly::parser ap(vm.logger);
        set = ap.parse(*vm.r, text, pinfo);
    }
    else
    {
        set = vm.r->parser_sqf().parse(*vm.r, text, pinfo);
    }
    if (!set.has_value()) { ok = false; reply.set("stage", "parse"); return {}; }
    auto context = vm.r->context_create().lock();
    rt::frame f(vm.r->default_value_scope(), *set);
    context->push_frame(f);
    context->name(file);
    if (cmd.boolean("scheduled", false)) context->can_suspend(true);
    return {};
}

static J handle(const J& cmd)
{
    g_value_json_nodes = 0;
    std::string op = cmd.str("op");
    J reply = J::obj();
    if (op == "ping") { reply.set("pong", true); return reply; }
    if (op == "new")
    {
        int id = (int)cmd.inum("vm", 0);
        g_vms.erase(id);
        if (cmd.has("virtual_clock"))
        {
            g_clock.enabled = cmd.boolean("virtual_clock");
            g_clock.delta_us = (long long)cmd.num("clock_delta_us", 0);
        }
        if (cmd.has("slice")) g_slice = (size_t)cmd.num("slice");
        install_hooks();
        auto vm = std::make_unique<VM>();
        setup_vm(*vm, cmd);
        g_vms[id] = std::move(vm);
        reply.set("ok", true);
        return reply;
    }
    if (op == "drop") { g_vms.erase((int)cmd.inum("vm", 0)); reply.set("ok", true); return reply; }
    if (op == "clock")
    {
        if (cmd.has("advance_us")) g_clock.now_us += (long long)cmd.num("advance_us");
        if (cmd.has("delta_us")) g_clock.delta_us = (long long)cmd.num("delta_us");
        if (cmd.has("enabled")) { g_clock.enabled = cmd.boolean("enabled"); install_hooks(); }
        reply.set("now_us", g_clock.now_us).set("reads", g_clock.reads);
        return reply;
    }
    if (op == "slice") { g_slice = (size_t)cmd.num("n", 150); reply.set("ok", true); return reply; }
    if (op == "observe")
    {
        g_obs.enabled = cmd.boolean("enabled", true);
        g_obs.record = cmd.boolean("record", false);
        g_obs.check_stack = cmd.boolean("check_stack", false);
        if (cmd.has("max_records")) g_obs.max_records = (size_t)cmd.num("max_records");
        g_obs.reset();
        reply.set("ok", true);
        return reply;
    }
    if (op == "obs") { return obs_json(); }
    if (op == "registry")
    {
        VM& vm = vm_of(cmd);
        J n = J::arr(), u = J::arr(), b = J::arr();
        for (auto it = vm.r->sqfop_nular_begin(); it != vm.r->sqfop_nular_end(); ++it) { J e = J::arr(); e.push(std::string(it->second.name())); e.push(std::string(it->second.description())); n.push(e); }
        for (auto it = vm.r->sqfop_unary_begin(); it != vm.r->sqfop_unary_end(); ++it) { J e = J::arr(); e.push(std::string(it->second.name())); e.push(std::string(it->second.right_type().to_string())); e.push(std::string(it->second.description())); u.push(e); }
        for (auto it = vm.r->sqfop_binary_begin(); it != vm.r->sqfop_binary_end(); ++it) { J e = J::arr(); e.push(std::string(it->second.name())); e.push(std::string(it->second.left_type().to_string())); e.push(std::string(it->second.right_type().to_string())); e.push((int)it->second.precedence()); e.push(std::string(it->second.description())); b.push(e); }
        reply.set("nular", n).set("unary", u).set("binary", b);
        return reply;
    }
    if (op == "asm")
    {
        VM& vm = vm_of(cmd);
        std::string text = cmd.str("sqf");
        auto set = vm.r->parser_sqf().parse(*vm.r, text, { cmd.str("file", "verif.sqf"), {} });
        reply.set("ok", set.has_value());
        if (set.has_value())
        {
            if (cmd.boolean("pos", false)) reply.set("asm", listing_pos(*set));
            else if (cmd.boolean("deep", false)) reply.set("asm", listing_deep(*set));
            else reply.set("asm", listing(*set));
        }
        reply.set("logs", vm.logger.take());
        return reply;
    }
    if (op == "pretty")
    {
        VM& vm = vm_of(cmd);
        std::ostringstream out;
        sqf::parser::sqf::formatter fmt(*vm.r, cmd.str("sqf"), { "pretty.sqf"s, {} });
        fmt.prettify(fmt.getRes(), 0, out);
        reply.set("text", out.str());
        reply.set("logs", vm.logger.take());
        return reply;
    }
    if (op == "preprocess")
    {
        VM& vm = vm_of(cmd);
        rt::fileio::pathinfo pinfo{ std::string(cmd.str("file", "verif.sqf")), std::string(cmd.str("vfile", "")) };
        std::optional<std::string> res;
        if (cmd.boolean("fresh", false))
        {
            sqf::parser::preprocessor::impl_default pp(vm.logger);
            res = pp.preprocess(*vm.r, cmd.str("text"), pinfo);
        }
        else res = vm.r->parser_preprocessor().preprocess(*vm.r, cmd.str("text"), pinfo);
        reply.set("ok", res.has_value());
        if (res.has_value()) reply.set("text", *res);
        reply.set("logs", vm.logger.take());
        return reply;
    }
    if (op == "check_syntax")
    {
        VM& vm = vm_of(cmd);
        bool ok = vm.r->parser_sqf().check_syntax(*vm.r, cmd.str("sqf"), { "verif.sqf"s, {} });
        reply.set("ok", ok).set("logs", vm.logger.take());
        return reply;
    }
    if (op == "config_load")
    {
        VM& vm = vm_of(cmd);
        std::string text = cmd.str("text");
        rt::fileio::pathinfo pinfo{ std::string(cmd.str("file", "config.cpp")), std::string("") };
        if (cmd.boolean("pp", false))
        {
            auto pp = vm.r->parser_preprocessor().preprocess(*vm.r, text, pinfo);
            if (!pp.has_value()) { reply.set("ok", false).set("stage", "preprocess").set("logs", vm.logger.take()); return reply; }
            text = *pp;
        }
        bool ok;
        if (cmd.boolean("syntax_only", false)) ok = vm.r->parser_config().check_syntax(text, pinfo);
        else ok = vm.r->parser_config().parse(vm.r->confighost(), text, pinfo);
        reply.set("ok", ok).set("logs", vm.logger.take());
        return reply;
    }
    if (op == "setvar")
    {
        VM& vm = vm_of(cmd);
        auto scope = vm.r->get_value_scope(cmd.str("ns", "missionNamespace"));
        scope->at(cmd.str("name")) = build_value(vm, cmd.at("value"));
        reply.set("ok", true);
        return reply;
    }
    if (op == "getvar")
    {
        VM& vm = vm_of(cmd);
        auto scope = vm.r->get_value_scope(cmd.str("ns", "missionNamespace"));
        auto v = scope->try_get(cmd.str("name"));
        reply.set("exists", v.has_value());
        if (v.has_value()) { reply.set("value", value_json(*v)); reply.set("sqf", v->to_string_sqf()); }
        return reply;
    }
    if (op == "allvars")
    {
        VM& vm = vm_of(cmd);
        auto scope = vm.r->get_value_scope(cmd.str("ns", "missionNamespace"));
        J arr = J::arr();
        for (auto& kv : *scope) { J e = J::arr(); e.push(kv.first); e.push(kv.second.to_string_sqf()); arr.push(e); }
        reply.set("vars", arr);
        return reply;
    }
    if (op == "clearvars")
    {
        VM& vm = vm_of(cmd);
        for (auto ns : { "missionNamespace", "uiNamespace", "parsingNamespace", "profileNamespace" }) vm.r->get_value_scope(ns)->clear_value_scope();
        reply.set("ok", true);
        return reply;
    }
    if (op == "eqhash")
    {
        VM& vm = vm_of(cmd);
        auto a = build_value(vm, cmd.at("a")); auto b = build_value(vm, cmd.at("b"));
        reply.set("eq", a == b).set("eq_rev", b == a).set("ha", std::to_string(a.hash())).set("hb", std::to_string(b.hash()));
        return reply;
    }
    if (op == "eqhash_vars")
    {
        VM& vm = vm_of(cmd);
        auto scope = vm.r->get_value_scope("missionNamespace");
        auto a = scope->at(cmd.str("a")); auto b = scope->at(cmd.str("b"));
        reply.set("eq", a == b).set("eq_rev", b == a).set("ha", std::to_string(a.hash())).set("hb", std::to_string(b.hash()));
        return reply;
    }
    if (op == "load")
    {
        VM& vm = vm_of(cmd);
        bool ok; do_parse_and_load(vm, cmd, ok, reply);
        reply.set("ok", ok).set("logs", vm.logger.take()).set("state", state_name(vm.r->runtime_state()));
        return reply;
    }
    if (op == "action")
    {
        VM& vm = vm_of(cmd);
        unsigned long long before = g_obs.count;
        auto res = vm.r->execute(action_of(cmd.str("action")));
        reply.set("result", result_name(res)).set("state", state_name(vm.r->runtime_state()));
        reply.set("executed", g_obs.count - before);
        reply.set("logs", vm.logger.take());
        if (cmd.boolean("contexts", false)) reply.set("contexts", contexts_json(vm));
        return reply;
    }
    if (op == "inspect")
    {
        VM& vm = vm_of(cmd);
        reply.set("state", state_name(vm.r->runtime_state())).set("contexts", contexts_json(vm));
        return reply;
    }
    if (op == "run")
    {
        // preprocess (optional) -> parse -> new context -> execute(start) [-> abort when not ok, as cli/sqfvm_call do]
        VM& vm = vm_of(cmd);
        bool ok = true;
        if (auto pre = cmd.find("also"))
        {
            for (auto& extra : pre->a) { bool ok2; J dummy = J::obj(); do_parse_and_load(vm, extra, ok2, dummy); ok = ok && ok2; }
        }
        bool okm; do_parse_and_load(vm, cmd, okm, reply);
        ok = ok && okm;
        if (!ok)
        {
            reply.set("ok", false).set("logs", vm.logger.take()).set("state", state_name(vm.r->runtime_state()));
            return reply;
        }
        long long t0 = g_clock.now_us;
        auto res = vm.r->execute(rt::runtime::action::start);
        reply.set("ok", true).set("result", result_name(res)).set("state", state_name(vm.r->runtime_state()));
        reply.set("t_us", g_clock.now_us - t0);
        reply.set("ncontexts", (long)(vm.r->context_end() - vm.r->context_begin()));
        if (cmd.boolean("abort_on_fail", true) && res != rt::runtime::result::ok && res != rt::runtime::result::empty)
        {
            auto ares = vm.r->execute(rt::runtime::action::abort);
            reply.set("abort_result", result_name(ares)).set("state_after_abort", state_name(vm.r->runtime_state()));
        }
        if (vm.r->exit_code().has_value()) reply.set("exit_code", *vm.r->exit_code());
        reply.set("logs", vm.logger.take());
        if (g_obs.enabled) reply.set("obs", obs_json());
        if (auto gv = cmd.find("getvars"))
        {
            J vals = J::obj();
            auto scope = vm.r->get_value_scope(cmd.str("getvars_ns", "missionNamespace"));
            for (auto& n : gv->a)
            {
                auto v = scope->try_get(n.s);
                if (v.has_value())
                {
                    J e = J::obj();
                    // structural read-back is depth limited (safe on cyclic values); the printed form is only produced when asked for
                    if (cmd.boolean("getvars_struct", false)) e.set("value", value_json(*v)); else e.set("sqf", v->to_string_sqf());
                    vals.set(n.s, e);
                }
            }
            reply.set("vars", vals);
        }
        return reply;
    }
    if (op == "api")
    {
        std::string fn = cmd.str("fn");
        int id = (int)cmd.inum("inst", 0);
        if (fn == "create" || fn == "create_basic" || fn == "create_empty")
        {
            void* ud = (void*)(intptr_t)cmd.inum("user_data", 0);
            float mr = (float)cmd.num("max_runtime_s", 0);
            void* h = fn == "create" ? sqfvm_create_instance(ud, api_callback, mr)
                : fn == "create_basic" ? sqfvm_create_instance_basic(ud, api_callback, mr)
                : sqfvm_create_instance_empty(ud, api_callback, mr);
            g_api_instances[id] = h;
            reply.set("ok", h != nullptr);
        }
        else if (fn == "destroy" && cmd.str("handle", "valid") != "valid")
        {
            // destroying something that is no instance must be harmless
            static char zeroed_d[64] = { 0 };
            sqfvm_destroy_instance(cmd.str("handle") == "null" ? nullptr : (void*)zeroed_d);
            reply.set("ok", true).set("rc", -1);
        }
        else if (fn == "destroy")
        {
            auto it = g_api_instances.find(id);
            if (it != g_api_instances.end()) { sqfvm_destroy_instance(it->second); g_api_instances.erase(it); }
            reply.set("ok", true);
        }
        else
        {
            void* h = nullptr;
            static char zeroed[64] = { 0 };
            std::string handle = cmd.str("handle", "valid");
            if (handle == "valid") { auto it = g_api_instances.find(id); if (it == g_api_instances.end()) throw HarnessError("no api instance"); h = it->second; }
            else if (handle == "null") h = nullptr;
            else if (handle == "zeroed") h = zeroed;
            int32_t rc = 0;
            if (fn == "call")
            {
                std::string code = cmd.str("code"); std::string type = cmd.str("type", "s");
                rc = sqfvm_call(h, (void*)(intptr_t)cmd.inum("call_data", 0), type.empty() ? '\0' : type[0], code.data(), (uint32_t)code.size());
            }
            else if (fn == "load_config") { std::string code = cmd.str("code"); rc = sqfvm_load_config(h, code.data(), (uint32_t)code.size()); }
            else if (fn == "status") { rc = sqfvm_status(h); }
            else throw HarnessError("unknown api fn " + fn);
            reply.set("rc", (int)rc);
        }
        {
            std::lock_guard<std::mutex> g(g_apilog.m);
            reply.set("cb", g_apilog.entries);
            g_apilog.entries = J::arr();
        }
        return reply;
    }
    if (op == "pbo")
    {
        std::string path = cmd.str("path");
        std::filesystem::path p(path);
        rvutils::pbo::pbofile pbo(p);
        reply.set("good", pbo.good());
        if (pbo.good())
        {
            J attrs = J::arr();
            for (auto& a : pbo.attributes()) { J e = J::arr(); e.push(a.first); e.push(a.second); attrs.push(e); }
            reply.set("attrs", attrs);
            J files = J::arr();
            for (auto& fd : pbo.files())
            {
                J e = J::obj();
                e.set("name", fd.name).set("size", (unsigned long)fd.size);
                if (cmd.boolean("read", true))
                {
                    rvutils::pbo::pbofile::reader rd;
                    if (pbo.read(fd.name, rd))
                    {
                        size_t want = rd.descriptor().size;
                        if (want > (size_t)cmd.num("max_read", 1 << 26)) { e.set("data", J()); e.set("too_big", (unsigned long)want); }
                        else
                        {
                            std::string buf; buf.resize(want);
                            size_t n = rd.read(buf.data(), (std::streamsize)buf.size());
                            buf.resize(std::min(n, buf.size()));
                            e.set("data", buf);
                        }
                    }
                    else e.set("data", J());
                }
                files.push(e);
            }
            reply.set("files", files);
        }
        return reply;
    }
    if (op == "pbo_mount")
    {
        VM& vm = vm_of(cmd);
        auto& fio = static_cast<sqf::fileio::impl_default&>(vm.r->fileio());
        std::filesystem::path p(cmd.str("path"));
        // the library entry point for mounting an archive by path (what hosts call)
        fio.add_pbo_mapping(p);
        reply.set("exists_after", std::filesystem::exists(p));
        reply.set("logs", vm.logger.take());
        return reply;
    }
    if (op == "vfs")
    {
        VM& vm = vm_of(cmd);
        rt::fileio::pathinfo cur{ std::string(cmd.str("cur_physical", "")), std::string(cmd.str("cur_virtual", "")) };
        auto info = vm.r->fileio().get_info(cmd.str("path"), cur);
        reply.set("found", info.has_value());
        if (info.has_value())
        {
            reply.set("physical", info->physical).set("virtual", info->virtual_).set("additional", info->additional);
            if (cmd.boolean("read", true)) reply.set("data", vm.r->fileio().read_file(*info));
        }
        reply.set("logs", vm.logger.take());
        return reply;
    }
    if (op == "exec_start")
    {
        // start an executor thread running execute(action) on a VM (C19/C20)
        int id = (int)cmd.inum("exec", 0);
        VM* vm = &vm_of(cmd);
        std::string action = cmd.str("action", "start");
        bool use_clock = g_clock.enabled;
        if (cmd.has("block_at")) { g_gate.block_at = (long long)cmd.num("block_at"); g_gate.release = false; g_gate.blocked = false; }
        auto ex = std::make_unique<Executor>();
        Executor* exp = ex.get();
        ex->th = std::thread([vm, action, exp, use_clock]() {
            auto& h = sqf::verif::g_hooks;
            h.now = use_clock ? hook_now : nullptr; h.slice = hook_slice; h.instruction = hook_instruction; h.slice_begin = hook_slice_begin;
            auto res = vm->r->execute(action_of(action));
            exp->result = result_name(res);
            exp->done = true;
        });
        g_execs[id] = std::move(ex);
        if (cmd.has("block_at"))
        {
            // wait until the executor is blocked at the gate or finished
            auto deadline = std::chrono::steady_clock::now() + std::chrono::seconds(10);
            bool blocked = false;
            while (std::chrono::steady_clock::now() < deadline)
            {
                { std::lock_guard<std::mutex> lk(g_gate.m); if (g_gate.blocked) { blocked = true; break; } }
                if (exp->done) break;
                std::this_thread::sleep_for(std::chrono::microseconds(50));
            }
            reply.set("blocked", blocked).set("done", (bool)exp->done);
        }
        reply.set("ok", true);
        return reply;
    }
    if (op == "exec_release")
    {
        { std::lock_guard<std::mutex> lk(g_gate.m); g_gate.release = true; if (cmd.has("next_block_at")) {} }
        g_gate.cv.notify_all();
        reply.set("ok", true);
        return reply;
    }
    if (op == "exec_join")
    {
        int id = (int)cmd.inum("exec", 0);
        auto it = g_execs.find(id);
        if (it == g_execs.end()) throw HarnessError("no executor");
        auto deadline = std::chrono::steady_clock::now() + std::chrono::milliseconds((long long)cmd.num("timeout_ms", 10000));
        while (!it->second->done && std::chrono::steady_clock::now() < deadline) std::this_thread::sleep_for(std::chrono::microseconds(100));
        bool done = it->second->done;
        reply.set("done", done);
        if (done)
        {
            it->second->th.join();
            reply.set("result", it->second->result);
            g_execs.erase(it);
        }
        VM& vm = vm_of(cmd);
        reply.set("state", state_name(vm.r->runtime_state()));
        reply.set("obs_count", g_obs.count).set("max_inside", g_obs.max_inside);
        if (done) reply.set("logs", vm.logger.take());
        return reply;
    }
    if (op == "state")
    {
        VM& vm = vm_of(cmd);
        reply.set("state", state_name(vm.r->runtime_state()));
        reply.set("ncontexts", (long)(vm.r->context_end() - vm.r->context_begin()));
        return reply;
    }
    if (op == "pair_threads")
    {
        // C20: run program P in VM a and Q in VM b on two threads started together; return both logs.
        // With create=true the two VMs are also constructed inside the threads (concurrent first use of everything).
        struct Side { int id; std::string sqf, config, ops; bool pp; J out; std::unique_ptr<VM> fresh; VM* vm = nullptr; };
        bool create = cmd.boolean("create", false);
        auto run_one = [create](Side* sd, std::atomic<int>* barrier) {
            (*barrier)--; while (barrier->load() > 0) {}
            if (create)
            {
                sd->fresh = std::make_unique<VM>();
                J c = J::obj(); c.set("ops", sd->ops);
                setup_vm(*sd->fresh, c);
                sd->vm = sd->fresh.get();
            }
            VM* vm = sd->vm;
            J rep = J::obj();
            bool ok = true;
            if (!sd->config.empty())
            {
                rt::fileio::pathinfo pinfo{ std::string("config.cpp"), std::string("") };
                ok = vm->r->parser_config().parse(vm->r->confighost(), sd->config, pinfo);
                rep.set("config_ok", ok);
            }
            J c = J::obj(); c.set("sqf", sd->sqf).set("pp", sd->pp);
            bool okp = false;
            do_parse_and_load(*vm, c, okp, rep);
            if (okp) { auto res = vm->r->execute(rt::runtime::action::start); rep.set("result", result_name(res)); if (res != rt::runtime::result::ok && res != rt::runtime::result::empty) vm->r->execute(rt::runtime::action::abort); }
            rep.set("ok", okp).set("logs", vm->logger.take());
            sd->out = rep;
        };
        Side sa, sb;
        sa.id = (int)cmd.inum("a", 0); sb.id = (int)cmd.inum("b", 1);
        sa.sqf = cmd.str("p"); sb.sqf = cmd.str("q");
        sa.config = cmd.str("p_config", ""); sb.config = cmd.str("q_config", "");
        sa.ops = cmd.str("p_ops", "full"); sb.ops = cmd.str("q_ops", "full");
        sa.pp = sb.pp = cmd.boolean("pp", false);
        if (!create) { sa.vm = g_vms.at(sa.id).get(); sb.vm = g_vms.at(sb.id).get(); }
        else { g_vms.erase(sa.id); g_vms.erase(sb.id); }
        std::atomic<int> barrier{ 2 };
        std::thread ta(run_one, &sa, &barrier);
        std::thread tb(run_one, &sb, &barrier);
        ta.join(); tb.join();
        if (create) { g_vms[sa.id] = std::move(sa.fresh); g_vms[sb.id] = std::move(sb.fresh); }
        reply.set("p", sa.out).set("q", sb.out);
        return reply;
    }
    throw HarnessError("unknown op " + op);
}

int main(int argc, char** argv)
{
    for (int i = 1; i < argc; i++)
    {
        if (std::string(argv[i]) == "--errfile" && i + 1 < argc)
        {
            g_errfile = argv[++i];
            int fd = open(g_errfile.c_str(), O_WRONLY | O_CREAT | O_TRUNC | O_APPEND, 0644);
            if (fd >= 0) { dup2(fd, 2); close(fd); }
        }
    }
    std::ios::sync_with_stdio(false);
    install_hooks();
    std::string line;
    off_t err_off = 0;
    while (std::getline(std::cin, line))
    {
        if (line.empty()) continue;
        J reply;
        try
        {
            J cmd = J::parse(line);
            try
            {
                reply = handle(cmd);
            }
            catch (const HarnessError& ex)
            {
                reply = J::obj();
                reply.set("harness_error", std::string(ex.what()));
            }
            catch (const std::exception& ex)
            {
                // An exception that escaped the VM.
                reply = J::obj();
                if (strncmp(ex.what(), "json:", 5) == 0) reply.set("harness_error", std::string(ex.what()));
                else reply.set("exception", std::string(ex.what())).set("exception_type", std::string(typeid(ex).name()));
            }
        }
        catch (const std::exception& ex)
        {
            reply = J::obj();
            reply.set("harness_error", std::string(ex.what()));
        }
        // anything the sanitizers (UBSan in recover mode) wrote during this command
        if (!g_errfile.empty())
        {
            struct stat st;
            if (stat(g_errfile.c_str(), &st) == 0 && st.st_size > err_off)
            {
                std::ifstream f(g_errfile, std::ios::binary);
                f.seekg(err_off);
                std::string buf((size_t)std::min<off_t>(st.st_size - err_off, 20000), '\0');
                f.read(buf.data(), (std::streamsize)buf.size());
                buf.resize((size_t)f.gcount());
                err_off = st.st_size;
                reply.set("stderr", buf);
            }
        }
        std::string out = reply.dump();
        out.push_back('\n');
        fwrite(out.data(), 1, out.size(), stdout);
        fflush(stdout);
    }
    return 0;
}
