extern const char g_GIT_SHA1[] = "verif";
