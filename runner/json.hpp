// Minimal JSON value, parser and writer for the verification runner.
// Strings are byte strings: \u00XX <-> one byte (latin-1 convention), so
// arbitrary NUL-free/any bytes survive the trip to and from Python.
#pragma once
#include <string>
#include <vector>
#include <map>
#include <memory>
#include <stdexcept>
#include <cstdio>
#include <cmath>
#include <cstdint>

struct J
{
    enum K { NUL, BOOL, NUM, STR, ARR, OBJ } k = NUL;
    bool b = false;
    double n = 0;
    std::string s;
    std::vector<J> a;
    std::vector<std::pair<std::string, J>> o;

    J() {}
    J(bool v) : k(BOOL), b(v) {}
    J(int v) : k(NUM), n(v) {}
    J(long v) : k(NUM), n((double)v) {}
    J(long long v) : k(NUM), n((double)v) {}
    J(unsigned v) : k(NUM), n(v) {}
    J(unsigned long v) : k(NUM), n((double)v) {}
    J(unsigned long long v) : k(NUM), n((double)v) {}
    J(double v) : k(NUM), n(v) {}
    J(const char* v) : k(STR), s(v) {}
    J(const std::string& v) : k(STR), s(v) {}
    J(std::string_view v) : k(STR), s(v) {}
    static J arr() { J j; j.k = ARR; return j; }
    static J obj() { J j; j.k = OBJ; return j; }

    J& set(const std::string& key, J v) { k = OBJ; for (auto& p : o) if (p.first == key) { p.second = std::move(v); return *this; } o.emplace_back(key, std::move(v)); return *this; }
    J& push(J v) { k = ARR; a.push_back(std::move(v)); return *this; }
    const J* find(const std::string& key) const { for (auto& p : o) if (p.first == key) return &p.second; return nullptr; }
    bool has(const std::string& key) const { return find(key) != nullptr; }
    const J& at(const std::string& key) const { auto p = find(key); if (!p) throw std::invalid_argument("json: missing key " + key); return *p; }
    std::string str(const std::string& key, const std::string& def = "") const { auto p = find(key); return p && p->k == STR ? p->s : def; }
    double num(const std::string& key, double def = 0) const { auto p = find(key); return p && p->k == NUM ? p->n : (p && p->k == BOOL ? (p->b ? 1 : 0) : def); }
    long long inum(const std::string& key, long long def = 0) const { auto p = find(key); return p && p->k == NUM ? (long long)p->n : def; }
    bool boolean(const std::string& key, bool def = false) const { auto p = find(key); return p && p->k == BOOL ? p->b : (p && p->k == NUM ? p->n != 0 : def); }

    static void esc(const std::string& s, std::string& out)
    {
        out.push_back('"');
        char buf[8];
        for (unsigned char c : s)
        {
            if (c == '"') { out += "\\\""; }
            else if (c == '\\') { out += "\\\\"; }
            else if (c < 0x20 || c >= 0x7f) { snprintf(buf, sizeof buf, "\\u%04x", c); out += buf; }
            else out.push_back((char)c);
        }
        out.push_back('"');
    }
    void dump(std::string& out) const
    {
        switch (k)
        {
        case NUL: out += "null"; break;
        case BOOL: out += b ? "true" : "false"; break;
        case NUM:
        {
            if (std::isnan(n)) { out += "\"NaN\""; break; }
            if (std::isinf(n)) { out += n > 0 ? "\"Infinity\"" : "\"-Infinity\""; break; }
            char buf[40];
            if (n == (double)(long long)n && std::fabs(n) < 9e15) snprintf(buf, sizeof buf, "%lld", (long long)n);
            else snprintf(buf, sizeof buf, "%.17g", n);
            out += buf;
        } break;
        case STR: esc(s, out); break;
        case ARR:
            out.push_back('[');
            for (size_t i = 0; i < a.size(); i++) { if (i) out.push_back(','); a[i].dump(out); }
            out.push_back(']');
            break;
        case OBJ:
            out.push_back('{');
            for (size_t i = 0; i < o.size(); i++) { if (i) out.push_back(','); esc(o[i].first, out); out.push_back(':'); o[i].second.dump(out); }
            out.push_back('}');
            break;
        }
    }
    std::string dump() const { std::string s; dump(s); return s; }

    // ---- parser
    struct P
    {
        const char* p; const char* e;
        void ws() { while (p < e && (*p == ' ' || *p == '\n' || *p == '\t' || *p == '\r')) ++p; }
        [[noreturn]] void fail(const char* m) { throw std::runtime_error(std::string("json: ") + m); }
        J val()
        {
            ws();
            if (p >= e) fail("eof");
            char c = *p;
            if (c == '{')
            {
                ++p; J j = J::obj(); ws();
                if (p < e && *p == '}') { ++p; return j; }
                while (true)
                {
                    ws(); if (p >= e || *p != '"') fail("key");
                    std::string key = strv(); ws();
                    if (p >= e || *p != ':') fail("colon"); ++p;
                    j.o.emplace_back(std::move(key), val()); ws();
                    if (p < e && *p == ',') { ++p; continue; }
                    if (p < e && *p == '}') { ++p; break; }
                    fail("obj");
                }
                return j;
            }
            if (c == '[')
            {
                ++p; J j = J::arr(); ws();
                if (p < e && *p == ']') { ++p; return j; }
                while (true)
                {
                    j.a.push_back(val()); ws();
                    if (p < e && *p == ',') { ++p; continue; }
                    if (p < e && *p == ']') { ++p; break; }
                    fail("arr");
                }
                return j;
            }
            if (c == '"') { J j; j.k = STR; j.s = strv(); return j; }
            if (c == 't') { p += 4; return J(true); }
            if (c == 'f') { p += 5; return J(false); }
            if (c == 'n') { p += 4; return J(); }
            char* end = nullptr;
            double d = strtod(p, &end);
            if (end == p) fail("value");
            p = end;
            return J(d);
        }
        std::string strv()
        {
            std::string out; ++p;
            while (p < e && *p != '"')
            {
                if (*p == '\\')
                {
                    ++p; if (p >= e) fail("esc");
                    switch (*p)
                    {
                    case 'n': out.push_back('\n'); break;
                    case 't': out.push_back('\t'); break;
                    case 'r': out.push_back('\r'); break;
                    case 'b': out.push_back('\b'); break;
                    case 'f': out.push_back('\f'); break;
                    case 'u':
                    {
                        if (p + 4 >= e) fail("u");
                        unsigned v = 0;
                        for (int i = 1; i <= 4; i++)
                        {
                            char h = p[i]; v <<= 4;
                            if (h >= '0' && h <= '9') v |= h - '0';
                            else if (h >= 'a' && h <= 'f') v |= h - 'a' + 10;
                            else if (h >= 'A' && h <= 'F') v |= h - 'A' + 10;
                            else fail("hex");
                        }
                        p += 4;
                        if (v > 255) fail("codepoint > 255");
                        out.push_back((char)(unsigned char)v);
                    } break;
                    default: out.push_back(*p); break;
                    }
                    ++p;
                }
                else out.push_back(*p++);
            }
            if (p >= e) fail("unterminated string");
            ++p;
            return out;
        }
    };
    static J parse(const std::string& text) { P p{ text.data(), text.data() + text.size() }; return p.val(); }
};
