// libFuzzer target for C10 (front ends are total and deterministic).
//
// Input: first byte selects the front end (preprocessor / SQF parser / config
// parser), the rest is the text. The semantic oracle sits inside the target:
//   * the front end returns (no crash, no sanitizer report; hangs are caught by -timeout)
//   * no C++ exception escapes
//   * no result => at least one error-level diagnostic
//   * the same input gives the same result and the same diagnostics twice
// A failing oracle writes a one-line reason to stderr and traps; the Python
// side (props/C10.py extra()) replays every artifact through the runner and
// classifies it with the same signatures as the Hypothesis part.
#include "runtime/logging.h"
#include "runtime/runtime.h"
#include "parser/config/config_parser.hpp"
#include "parser/sqf/sqf_parser.hpp"
#include "parser/preprocessor/default.h"
#include "operators/ops.h"
#include "fileio/default.h"

#include <cstdint>
#include <cstdio>
#include <cstring>
#include <memory>
#include <string>
#include <vector>

namespace rt = sqf::runtime;
using namespace std::string_literals;

namespace
{
    struct Entry { int level; size_t code; std::string text; bool operator==(const Entry& o) const { return level == o.level && code == o.code && text == o.text; } };
    class CountLogger : public Logger
    {
    public:
        std::vector<Entry> entries;
        void log(const LogMessageBase& message) override
        {
            if (entries.size() < 2000) entries.push_back({ (int)message.getLevel(), message.getErrorCode(), message.formatMessage() });
        }
    };
    struct Outcome { bool ok; std::string out; std::vector<Entry> logs; };

    CountLogger g_logger;
    std::unique_ptr<rt::runtime> g_full;     // full operator set: SQF parser needs the registry, __EVAL needs operators

    void make_full()
    {
        rt::runtime::runtime_conf conf{};
        conf.max_runtime = std::chrono::milliseconds(2000);
        conf.disable_sleep = true; conf.enable_classname_check = false; conf.disable_networking = true; conf.print_context_work_to_log_on_exit = false;
        g_full = std::make_unique<rt::runtime>(g_logger, conf);
        g_full->fileio(std::make_unique<sqf::fileio::impl_default>(g_logger));
        g_full->parser_config(std::make_unique<sqf::parser::config::parser>(g_logger));
        g_full->parser_preprocessor(std::make_unique<sqf::parser::preprocessor::impl_default>(g_logger));
        g_full->parser_sqf(std::make_unique<sqf::parser::sqf::parser>(g_logger));
        sqf::operators::ops(*g_full);
    }

    Outcome run_once(int entry, const std::string& text)
    {
        Outcome o{ false, {}, {} };
        g_logger.entries.clear();
        // nothing may leak between iterations: variables set by __EVAL/__EXEC
        for (auto ns : { "missionNamespace", "uiNamespace", "parsingNamespace", "profileNamespace" }) g_full->get_value_scope(ns)->clear_value_scope();
        rt::fileio::pathinfo pinfo{ "/fz/in.sqf"s, ""s };
        switch (entry)
        {
        case 0:
        {
            sqf::parser::preprocessor::impl_default pp(g_logger);     // fresh macro table per run
            if (text.find("__") != std::string::npos || text.find('\\') != std::string::npos)
            { // the counter is per-VM state by design: same input means same text in the same state
                sqf::parser::preprocessor::impl_default reset(g_logger);
                reset.preprocess(*g_full, "__COUNTER_RESET__", { "/fz/reset.sqf"s, ""s });
                g_logger.entries.clear();
            }
            auto res = pp.preprocess(*g_full, text, pinfo);
            o.ok = res.has_value();
            if (o.ok) o.out = *res;
        } break;
        case 1:
        {
            auto set = g_full->parser_sqf().parse(*g_full, text, pinfo);
            o.ok = set.has_value();
            if (o.ok) { for (auto& inst : *set) { o.out += inst->to_string(); o.out.push_back('\n'); } }
        } break;
        default:
        {
            // a runtime of its own, so that classes of earlier inputs are gone
            rt::runtime::runtime_conf conf{};
            rt::runtime local(g_logger, conf);
            local.parser_config(std::make_unique<sqf::parser::config::parser>(g_logger));
            o.ok = local.parser_config().parse(local.confighost(), text, pinfo);
        } break;
        }
        o.logs = g_logger.entries;
        return o;
    }

    [[noreturn]] void fail(const char* what, int entry, const std::string& detail)
    {
        fprintf(stderr, "\nFUZZ-ORACLE: %s entry=%d %s\n", what, entry, detail.substr(0, 400).c_str());
        fflush(stderr);
        __builtin_trap();
    }
}

extern "C" int LLVMFuzzerTestOneInput(const uint8_t* data, size_t size)
{
    if (size < 1) return 0;
    if (!g_full) make_full();
    int entry = data[0] % 3;
    std::string text(reinterpret_cast<const char*>(data + 1), size - 1);
    Outcome a, b;
    try
    {
        a = run_once(entry, text);
        b = run_once(entry, text);
    }
    catch (const std::exception& ex)
    {
        fail("exception", entry, ex.what());
    }
    bool has_error = false;
    for (auto& l : a.logs) if (l.level <= 1) has_error = true;
    if (!a.ok && !has_error) fail("silent-failure", entry, "no result and no error diagnostic");
    if (a.ok != b.ok || a.out != b.out || !(a.logs == b.logs)) fail("nondeterministic", entry, "second run differs");
    return 0;
}
