#!/bin/bash
# tools/seed_recheck.sh [names...] : re-run the quick check of each seeded change's property against the CURRENT checks
# (apply seeded/<name>/patch.diff to /repo, run, undo); writes seeded/<name>/recheck.json. /repo is left clean.
cd "$(dirname "$0")/.."
NAMES="${*:-$(ls seeded)}"
for n in $NAMES; do
  d=/verif/seeded/$n
  [ -f $d/patch.diff ] || continue
  prop=$(python3 -c "import json;print(json.load(open('$d/meta.json')).get('property',''))" 2>/dev/null)
  [ -n "$prop" ] || prop=${n%%-*}
  if ! git -C /repo apply --check $d/patch.diff 2>/dev/null; then
    echo "== $n: patch no longer applies to the current tree (skipped)"
    echo "{\"seed\": \"$n\", \"property\": \"$prop\", \"applies\": false}" > $d/recheck.json
    continue
  fi
  touch $d/.stamp
  git -C /repo apply $d/patch.diff
  VERIF_SEED=1 VERIF_BUDGET_S=${VERIF_BUDGET_S:-30} bin/check $prop --tier quick > $d/recheck_$prop.log 2>&1; rc=$?
  git -C /repo checkout -- .
  nv=$(grep -c '^VIOLATION' $d/recheck_$prop.log)
  sig=$(grep -m1 'signature:' $d/recheck_$prop.log | sed 's/^ *signature: //' | cut -c1-120 | tr -d '"\\')
  find /verif/replays -type f -newer $d/.stamp -delete
  rm -f $d/.stamp
  echo "== $n: $prop exit=$rc violations=$nv first=$sig"
  echo "{\"seed\": \"$n\", \"property\": \"$prop\", \"applies\": true, \"check_exit\": $rc, \"violations\": $nv, \"first_signature\": \"$sig\", \"date\": \"2026-09-26\"}" > $d/recheck.json
done
git -C /repo status --short | grep -v _build
