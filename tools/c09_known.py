#!/usr/bin/env python3
"""tools/c09_known.py <replay dir>... : offline helper that turns shrunk C09 replays (one per root cause found by a campaign)
into known_findings.json entries keyed by (failure kind, operator). Run by hand after triage; checks never write that file."""
import glob, json, os, re, sys
VERIF = os.path.dirname(os.path.dirname(os.path.abspath(__file__)))
kfp = os.path.join(VERIF, "known_findings.json")
kf = json.load(open(kfp))
have = {k["signature"] for k in kf["findings"] if k["property"] == "C09"}
sys.path.insert(0, VERIF)
from props.C09 import expr_of
groups = {}
for d in sys.argv[1:]:
    for f in sorted(glob.glob(os.path.join(d, "*.json"))):
        r = json.load(open(f))
        kind, op = r["sig"].split("|")[:2]
        groups.setdefault(op, []).append((kind, r))
for op, items in sorted(groups.items()):
    kinds = sorted({k for k, _ in items})
    sig = "(%s)\\|%s\\|.*" % ("|".join(kinds), re.escape(op)) if any(k != "hang" for k in kinds) else "hang\\|%s" % re.escape(op)
    if "hang" in kinds and len(kinds) > 1:
        sig = "((%s)\\|%s\\|.*|hang\\|%s)" % ("|".join(k for k in kinds if k != "hang"), re.escape(op), re.escape(op))
    if sig in have:
        continue
    calls = []
    for k, r in items[:4]:
        calls.append("%s on `%s`" % (k, expr_of(r["case"])))
    first = items[0][1]
    detail = first["msg"].split("\n")
    brief = next((l.strip() for l in detail if "ERROR: AddressSanitizer" in l or "runtime error:" in l or "exception escaped" in l), detail[0])[:200]
    kf["findings"].append(dict(property="C09", signature=sig,
                               what="operator %s is not total/memory-safe on type-correct arguments: %s (%s)" % (op, "; ".join(calls), brief),
                               minimal_input=first["case"],
                               why_not_fixed="one of many independent argument-validation gaps in the operator implementations found by the C09 sweep; recorded per (failure kind, operator) so that a new failure in another operator is still reported"))
    print("added", sig)
json.dump(kf, open(kfp, "w"), indent=1)
