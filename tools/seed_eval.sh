#!/bin/bash
# tools/seed_eval.sh <PROP> <name> <seed_dir> <worktree> [check ids...]
# 1. confirms the seeded change in its scratch worktree (ctest passes, demo fails with it, passes on /repo)
# 2. applies patch.diff to /repo, runs the quick checks, undoes it
# 3. files everything under /verif/seeded/<name>/
set -u
PROP=$1; NAME=$2; SEED=$3; WT=$4; shift 4
CHECKS="${*:-$PROP}"
OUT=/verif/seeded/$NAME
mkdir -p $OUT
cp -r $SEED/* $OUT/ 2>/dev/null
cd $WT || exit 2
git diff -- src > $OUT/patch.diff
echo "== ctest in worktree (with change)"
cmake --build _build -j8 2>&1 | tail -1
CT=$(ctest --test-dir _build -j8 --timeout 900 2>&1 | grep "tests passed")
echo "$CT"
echo "== demo with change"
bash $OUT/demo.sh $WT > $OUT/demo_with.log 2>&1; DW=$?
echo "exit=$DW"
echo "== demo on /repo (without change)"
bash $OUT/demo.sh /repo > $OUT/demo_without.log 2>&1; DO=$?
echo "exit=$DO"
cd /verif
RES=""
touch $OUT/.stamp
git -C /repo apply $OUT/patch.diff || { echo "PATCH DOES NOT APPLY"; exit 2; }
for c in $CHECKS; do
  echo "== quick check $c with change applied"
  VERIF_SEED=${VERIF_SEED:-1} bin/check $c --tier quick > $OUT/check_$c.log 2>&1; RC=$?
  grep -m3 "VIOLATION\|BUILD-ERROR\|HARNESS" $OUT/check_$c.log
  tail -2 $OUT/check_$c.log | head -1 | cut -c1-200
  RES="$RES $c:exit=$RC"
done
git -C /repo checkout -- .
# keep replay files produced by the mutant out of the committed replay tier
find /verif/replays -type f -newer $OUT/.stamp | while read f; do mkdir -p $OUT/replays; mv $f $OUT/replays/ 2>/dev/null; done
find /verif/replays -type d -empty -delete 2>/dev/null
echo "RESULT $NAME ctest='$CT' demo_with=$DW demo_without=$DO checks:$RES"
cat > $OUT/meta.json <<EOM
{"seed": "$NAME", "property": "$PROP", "ctest_with_change": "$CT", "demo_exit_with_change": $DW, "demo_exit_without_change": $DO, "checks_run": "$RES"}
EOM
