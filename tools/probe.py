#!/usr/bin/env python3-vt
"""tools/probe.py 'sqf' ['sqf2' ...] : run scripts one after another on one VM and print result/logs/T"""
import sys, json
sys.path.insert(0, "/verif")
from engine.runner import Runner
from engine import build; build.ensure("asan")
r = Runner("asan"); r.start(); r.new(vm=0, ops="full")
for s in sys.argv[1:]:
    rep = r.run(s, vm=0, getvars=["T", "H"], abort_on_fail=True)
    print("---", s)
    print(" result=%s state=%s %s" % (rep.get("result"), rep.get("state"), rep.get("state_after_abort", "")))
    for l in rep.get("logs", []):
        print("   [%d] %s" % (l["l"], l["m"].split("\n")[0][:150]))
    print("  vars:", {k: v["sqf"] for k, v in rep.get("vars", {}).items()})
    if rep.get("stderr"): print("  STDERR", rep["stderr"][:300])
r.close()
