#!/bin/bash
# tools/sweep.sh [tier] [seeds...] : run every implemented check with several seeds, print a one-line verdict each
TIER=${1:-quick}; shift
SEEDS="${*:-1 2 3}"
cd "$(dirname "$0")/.."
python3-vt -m engine.build asan tsan >/dev/null 2>&1
for p in props/C*.py; do
  id=$(basename $p .py)
  for s in $SEEDS; do
    VERIF_SEED=$s bin/check $id --tier $TIER > /tmp/sweep_$$.log 2>&1; rc=$?
    echo "== $id seed=$s rc=$rc $(grep -c '^VIOLATION' /tmp/sweep_$$.log) violations; $(grep "^$id tier" /tmp/sweep_$$.log | cut -c1-160)"
    grep -A4 '^VIOLATION' /tmp/sweep_$$.log | cut -c1-600 | head -40
    grep 'HARNESS\|GENERATOR-FLOOR\|BUILD-ERROR\|Traceback' /tmp/sweep_$$.log | head -5
  done
done
rm -f /tmp/sweep_$$.log
