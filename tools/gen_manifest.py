#!/usr/bin/env python3
"""Regenerates MANIFEST.json from the property modules present in props/ (keeps it valid at all times)."""
import importlib, json, os, sys
VERIF = os.path.dirname(os.path.dirname(os.path.abspath(__file__)))
sys.path.insert(0, VERIF)
props = [json.loads(l) for l in open(os.path.join(VERIF, "properties.jsonl"))]
checks, na = [], []
serves = {}
for p in props:
    pid = p["id"]
    if not os.path.exists(os.path.join(VERIF, "props", pid + ".py")):
        na.append(dict(property_id=pid, reason="check not implemented yet in this tree (planned in DESIGN.md section 4); not claimed until its machinery exists"))
        continue
    mod = importlib.import_module("props." + pid)
    eng = getattr(mod, "ENGINE", "E-hyp")
    serves.setdefault(eng, []).append(pid)
    checks.append(dict(
        property_id=pid,
        quick_cmd="bin/check %s --tier quick" % pid,
        thorough_cmd="bin/check %s --tier thorough" % pid,
        evidence_file="evidence/%s.json" % pid,
        replay_cmd_template="bin/check %s --replay {path}" % pid,
        engine=eng,
        level_claimed=dict(category=mod.LEVEL, text=mod.LEVEL_TEXT, design_ref="DESIGN.md section 4, " + pid),
        level_note=mod.LEVEL_NOTE,
        technique=mod.TECHNIQUE,
    ))
m = dict(
    version=1,
    setup_cmd="python3-vt -m engine.build --all",
    hooks=dict(
        guard="SQFVM_RUNTIME_VERIF",
        enable="-DSQFVM_RUNTIME_VERIF is added by /verif/runner/CMakeLists.txt (target core, PUBLIC definition) for every flavour built under /verif/build",
        baseline_off_cmd="cmake -S /repo -B /repo/_build >/dev/null && cmake --build /repo/_build && ctest --test-dir /repo/_build -j8 --timeout 900",
        source_commits=[l.strip() for l in open(os.path.join(VERIF, "tools", "hook_commits.txt")) if l.strip()],
        add_only=True,
    ),
    engines=[
        dict(name="E-hyp", path="engine/ + runner/runner.cpp", serves_properties=serves.get("E-hyp", []),
             kind_free_text="Hypothesis (python3-vt) generators and Python reference models driving a persistent C++ runner that links /repo/src (clang ASan+UBSan, -DSQFVM_RUNTIME_VERIF); 16 worker processes; shrunk failures become JSON replay files"),
        dict(name="E-fuzz", path="runner/fuzz_*.cpp", serves_properties=serves.get("E-fuzz", []),
             kind_free_text="libFuzzer in-process targets (clang -fsanitize=fuzzer,address,undefined) with the semantic oracle inside the target"),
        dict(name="E-thr", path="runner/runner.cpp (exec_* commands)", serves_properties=serves.get("E-thr", []),
             kind_free_text="two-thread harness inside the runner: harness-owned schedules through the instruction hook (ASan build) and free-running threads (TSan build)"),
    ],
    checks=checks,
    not_applicable=na,
    notes="All checks rebuild /repo's working tree (ninja, incremental) before running. VERIF_SEED seeds every generator; VERIF_TIER or --tier selects quick/thorough. known_findings.json lists recorded (unrepaired) defects and fixed ones.",
)
json.dump(m, open(os.path.join(VERIF, "MANIFEST.json"), "w"), indent=1)
print("claimed:", [c["property_id"] for c in checks], "not_applicable:", [n["property_id"] for n in na])
