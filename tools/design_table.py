#!/usr/bin/env python3
"""regenerate the evidence table in DESIGN.md (section 10.2) from evidence/*.json"""
import glob, json, os, re
V = os.path.dirname(os.path.dirname(os.path.abspath(__file__)))
rows = ["| check | tier | seed | evaluations | distinct non-trivial | known findings hit | wall s | level |", "|---|---|---|---|---|---|---|---|"]
for f in sorted(glob.glob(os.path.join(V, "evidence", "C*.json"))):
    e = json.load(open(f))
    c = e.get("coverage", {})
    rows.append("| %s | %s | %s | %s | %s | %s | %s | %s |" % (e.get("property_id"), e.get("tier"), e.get("seed"), c.get("evaluations"), c.get("distinct_nontrivial"),
                                                        len(c.get("known_finding_hits") or {}), e.get("wall_s"), e.get("level")))
p = os.path.join(V, "DESIGN.md")
s = open(p).read()
s = re.sub(r"<!-- EVIDENCE-TABLE-BEGIN -->.*?<!-- EVIDENCE-TABLE-END -->", "<!-- EVIDENCE-TABLE-BEGIN -->\n" + "\n".join(rows) + "\n<!-- EVIDENCE-TABLE-END -->", s, flags=re.S)
open(p, "w").write(s)
print("\n".join(rows))
